package main

// C20 — MCP tools are role-, flag- and principal-gated, confined and audited.
//
// The gating table is finite and lives in the source as a handful of string switches; the rules
// read those tables from the type-checked syntax tree, cross-check them against each other and
// against the *effects* each tool handler can reach in the call graph, and prove on the SSA form
// that the access check dominates dispatch, listing and auditing.

import (
	"fmt"
	"go/ast"
	"go/token"
	"go/types"
	"sort"
	"strings"
	"time"

	"golang.org/x/tools/go/packages"
	"golang.org/x/tools/go/ssa"
)

func init() { register("C20", checkC20) }

type mcpTable struct {
	fn      *ssa.Function
	obj     *types.Func
	tag     string              // normal form of the switch tag ($ = the tool-name parameter)
	trueSet map[string]bool     // bool tables
	roles   map[string]string   // role table: tool -> role constant name
	pos     token.Pos
}

type mcpModel struct {
	inlineRank *ssa.Function // the rank function when the role test is written out in the access check
	p        *Program
	pkg      *packages.Package
	info     *types.Info
	srv      *types.Named
	handlers map[*ssa.Function]bool
	dispatch *ssa.Function
	access   *ssa.Function
	emitter  *ssa.Function
	descr    *ssa.Function
	roleTab  *mcpTable
	mutFlag  *mcpTable
	rtFlag   *mcpTable
	mutating *mcpTable
	cases    map[string]*ssa.Function // dispatch: tool -> handler
	caseTag  string
	descrs   map[string]string // descriptor name -> guarding flag field ("" = unconditional)
	descrPos map[string]token.Pos
	maint    map[*ssa.Function]bool
}

func isMapStringAny(t types.Type) bool {
	m, ok := t.Underlying().(*types.Map)
	if !ok {
		return false
	}
	if !isStringT(m.Key()) {
		return false
	}
	it, ok := m.Elem().Underlying().(*types.Interface)
	return ok && it.NumMethods() == 0
}

func isErrorT(t types.Type) bool { return t.String() == "error" }

func (m *mcpModel) decl(fn *ssa.Function) *ast.FuncDecl {
	if fn == nil {
		return nil
	}
	obj, _ := fn.Object().(*types.Func)
	fd, _ := m.p.funcDecl(obj)
	return fd
}

// nameSwitch finds the string switch in fd whose tag mentions parameter #pi; returns the tag normal form and the clauses.
func (m *mcpModel) nameSwitch(fd *ast.FuncDecl, pv *types.Var) (*ast.SwitchStmt, string) {
	var best *ast.SwitchStmt
	bestN := 0
	ast.Inspect(fd.Body, func(n ast.Node) bool {
		sw, ok := n.(*ast.SwitchStmt)
		if !ok || sw.Tag == nil {
			return true
		}
		if t := m.info.TypeOf(sw.Tag); t == nil || !isStringT(t) {
			return true
		}
		mentions := false
		ast.Inspect(sw.Tag, func(k ast.Node) bool {
			if id, ok := k.(*ast.Ident); ok && m.info.Uses[id] == pv {
				mentions = true
			}
			return true
		})
		if !mentions {
			return true
		}
		n2 := 0
		for _, s := range sw.Body.List {
			n2 += len(s.(*ast.CaseClause).List)
		}
		if n2 > bestN {
			best, bestN = sw, n2
		}
		return true
	})
	if best == nil {
		return nil, ""
	}
	tag := types.ExprString(best.Tag)
	// normal form: replace the parameter's name by $
	var b strings.Builder
	ast.Inspect(best.Tag, func(k ast.Node) bool { return true })
	b.WriteString(strings.ReplaceAll(" "+tag+" ", pv.Name(), "$"))
	return best, strings.TrimSpace(b.String())
}

func (m *mcpModel) constString(e ast.Expr) (string, bool) {
	tv, ok := m.info.Types[e]
	if !ok || tv.Value == nil {
		return "", false
	}
	if !isStringT(tv.Type) {
		return "", false
	}
	s := tv.Value.ExactString()
	if len(s) >= 2 && s[0] == '"' {
		var out string
		if _, err := fmt.Sscanf(s, "%q", &out); err == nil {
			return out, true
		}
	}
	return "", false
}

func (m *mcpModel) readTable(fn *ssa.Function) *mcpTable {
	fd := m.decl(fn)
	if fd == nil || fd.Type.Params == nil || len(fd.Type.Params.List) == 0 {
		return nil
	}
	pv := paramVarAt(m.info, fd, 0)
	if pv == nil {
		return nil
	}
	sw, tag := m.nameSwitch(fd, pv)
	if sw == nil {
		return m.readMapTable(fn, fd, pv)
	}
	t := &mcpTable{fn: fn, tag: tag, trueSet: map[string]bool{}, roles: map[string]string{}, pos: fd.Pos()}
	t.obj, _ = fn.Object().(*types.Func)
	for _, s := range sw.Body.List {
		cc := s.(*ast.CaseClause)
		if len(cc.Body) != 1 {
			continue
		}
		rs, ok := cc.Body[0].(*ast.ReturnStmt)
		if !ok {
			continue
		}
		for _, e := range cc.List {
			lit, ok := m.constString(e)
			if !ok {
				continue
			}
			switch len(rs.Results) {
			case 1:
				if id, ok := rs.Results[0].(*ast.Ident); ok && id.Name == "true" {
					t.trueSet[lit] = true
				}
			case 2:
				if id, ok := rs.Results[1].(*ast.Ident); ok && id.Name == "true" {
					t.roles[lit] = types.ExprString(rs.Results[0])
				}
			}
		}
	}
	return t
}

// readMapTable: the same table written as a package-level map literal of records, the function returning one field
// of the record filed under (a normal form of) its parameter: rows are the literal's keys, the column is the field.
func (m *mcpModel) readMapTable(fn *ssa.Function, fd *ast.FuncDecl, pv *types.Var) *mcpTable {
	// the index expression G[key] over a package-level map variable, key mentioning the parameter
	var idx *ast.IndexExpr
	var gv *types.Var
	ast.Inspect(fd.Body, func(n ast.Node) bool {
		ix, ok := n.(*ast.IndexExpr)
		if !ok {
			return true
		}
		id, ok := ast.Unparen(ix.X).(*ast.Ident)
		if !ok {
			return true
		}
		v, ok := m.info.Uses[id].(*types.Var)
		if !ok || v.Parent() != m.pkg.Types.Scope() {
			return true
		}
		if _, isMap := v.Type().Underlying().(*types.Map); !isMap {
			return true
		}
		mentions := false
		ast.Inspect(ix.Index, func(k ast.Node) bool {
			if kid, ok := k.(*ast.Ident); ok && m.info.Uses[kid] == pv {
				mentions = true
			}
			return true
		})
		if mentions {
			idx, gv = ix, v
		}
		return true
	})
	if idx == nil {
		return nil
	}
	// the field of the record that is returned (first result)
	field := ""
	ast.Inspect(fd.Body, func(n ast.Node) bool {
		rs, ok := n.(*ast.ReturnStmt)
		if !ok || len(rs.Results) == 0 {
			return true
		}
		if se, ok := ast.Unparen(rs.Results[0]).(*ast.SelectorExpr); ok {
			if sel := m.info.Selections[se]; sel != nil && sel.Kind() == types.FieldVal {
				field = se.Sel.Name
			}
		}
		return true
	})
	if field == "" {
		return nil
	}
	// the literal the variable is declared with; it must never be written elsewhere in the package
	var lit *ast.CompositeLit
	written := false
	for _, f := range m.pkg.Syntax {
		ast.Inspect(f, func(n ast.Node) bool {
			switch x := n.(type) {
			case *ast.ValueSpec:
				for i, nm := range x.Names {
					if m.info.Defs[nm] == gv && i < len(x.Values) {
						lit, _ = ast.Unparen(x.Values[i]).(*ast.CompositeLit)
					}
				}
			case *ast.AssignStmt:
				for _, l := range x.Lhs {
					e := ast.Unparen(l)
					if ix, ok := e.(*ast.IndexExpr); ok {
						e = ast.Unparen(ix.X)
					}
					if id, ok := e.(*ast.Ident); ok && m.info.Uses[id] == gv {
						written = true
					}
				}
			case *ast.CallExpr:
				if id, ok := x.Fun.(*ast.Ident); ok && (id.Name == "delete" || id.Name == "clear") && len(x.Args) > 0 {
					if aid, ok := ast.Unparen(x.Args[0]).(*ast.Ident); ok && m.info.Uses[aid] == gv {
						written = true
					}
				}
			}
			return true
		})
	}
	if lit == nil || written {
		return nil
	}
	tag := strings.TrimSpace(strings.ReplaceAll(" "+types.ExprString(idx.Index)+" ", pv.Name(), "$"))
	t := &mcpTable{fn: fn, tag: tag, trueSet: map[string]bool{}, roles: map[string]string{}, pos: fd.Pos()}
	t.obj, _ = fn.Object().(*types.Func)
	nres := fn.Signature.Results().Len()
	for _, e := range lit.Elts {
		kv, ok := e.(*ast.KeyValueExpr)
		if !ok {
			return nil
		}
		key, ok := m.constString(kv.Key)
		if !ok {
			return nil
		}
		rec, ok := ast.Unparen(kv.Value).(*ast.CompositeLit)
		if !ok {
			return nil
		}
		var val ast.Expr
		for _, fe := range rec.Elts {
			fkv, ok := fe.(*ast.KeyValueExpr)
			if !ok {
				return nil // positional record: not read
			}
			if id, ok := fkv.Key.(*ast.Ident); ok && id.Name == field {
				val = fkv.Value
			}
		}
		switch nres {
		case 1:
			if id, ok := val.(*ast.Ident); ok && id.Name == "true" {
				t.trueSet[key] = true
			}
		case 2:
			// (value, present): every key of the literal is present
			if val != nil {
				t.roles[key] = types.ExprString(val)
			} else {
				t.roles[key] = "" // zero value of the field
			}
		}
	}
	return t
}

func newMCPModel(c *Ctx) *mcpModel {
	p := c.P
	m := &mcpModel{p: p, pkg: p.Pkg("mcp"), handlers: map[*ssa.Function]bool{}, cases: map[string]*ssa.Function{}, descrs: map[string]string{}, descrPos: map[string]token.Pos{}}
	if m.pkg == nil {
		return nil
	}
	m.info = m.pkg.TypesInfo
	m.srv = p.Named("mcp", "Server")
	if m.srv == nil {
		return nil
	}
	methods := p.MethodsOf("mcp", "Server")
	for _, f := range methods {
		ps, rs := f.Signature.Params(), f.Signature.Results()
		if ps.Len() == 1 && isMapStringAny(ps.At(0).Type()) && rs.Len() == 2 && isErrorT(rs.At(1).Type()) {
			if _, isIface := rs.At(0).Type().Underlying().(*types.Interface); isIface {
				m.handlers[f] = true
			}
		}
	}
	// dispatch: the Server method calling the most handlers
	best := 0
	for _, f := range methods {
		n := 0
		seen := map[*ssa.Function]bool{}
		for _, ci := range allCalls(f, nil) {
			if g := ci.Common().StaticCallee(); g != nil && m.handlers[g] && !seen[g] {
				seen[g] = true
				n++
			}
		}
		if n > best {
			best, m.dispatch = n, f
		}
	}
	if m.dispatch == nil || best < 10 {
		return m
	}
	// access check and emitter: Server methods called by dispatch
	for _, ci := range allCalls(m.dispatch, nil) {
		g := ci.Common().StaticCallee()
		if g == nil || g.Signature.Recv() == nil || namedName(g.Signature.Recv().Type()) != "Server" {
			continue
		}
		ps, rs := g.Signature.Params(), g.Signature.Results()
		if ps.Len() == 1 && isStringT(ps.At(0).Type()) && rs.Len() == 1 && isErrorT(rs.At(0).Type()) {
			m.access = g
		}
		if rs.Len() == 0 {
			for _, a := range ci.Common().Args {
				if cst, ok := a.(*ssa.Const); ok && cst.Value != nil {
					switch strings.Trim(cst.Value.ExactString(), `"`) {
					case "denied", "error", "success":
						m.emitter = g
					}
				}
			}
		}
	}
	for _, f := range methods {
		rs := f.Signature.Results()
		if rs.Len() == 1 && f.Signature.Params().Len() == 0 {
			if sl, ok := rs.At(0).Type().Underlying().(*types.Slice); ok && namedName(sl.Elem()) == "toolDescriptor" {
				m.descr = f
			}
		}
	}
	// tables: func(string) bool / (Role, bool) called from the access check
	if m.access != nil {
		for _, ci := range allCalls(m.access, nil) {
			g := ci.Common().StaticCallee()
			if g == nil || g.Signature.Recv() != nil || !IsModuleFunc(g) || g.Signature.Params().Len() != 1 || !isStringT(g.Signature.Params().At(0).Type()) {
				continue
			}
			t := m.readTable(g)
			if t == nil {
				continue
			}
			if len(t.roles) > 0 {
				m.roleTab = t
			}
		}
		// bool tables are told apart by the server flag they are conjoined with (the principal test for the third)
		m.classifyBoolTables()
	}
	m.readDispatch()
	m.readDescriptors()
	return m
}

// classifyBoolTables: the mutating table is the bool table the audit emitter consults; a flag table is
// the bool table whose true result, followed by the server flag being off, leads the access check to refuse
// (read from the SSA paths, so the syntactic shape of the test does not matter).
func (m *mcpModel) classifyBoolTables() {
	isBoolTable := func(g *ssa.Function) *mcpTable {
		if g == nil || g.Signature.Recv() != nil || !IsModuleFunc(g) || g.Signature.Params().Len() != 1 || !isStringT(g.Signature.Params().At(0).Type()) {
			return nil
		}
		rs := g.Signature.Results()
		if rs.Len() != 1 || !types.Identical(rs.At(0).Type(), types.Typ[types.Bool]) {
			return nil
		}
		t := m.readTable(g)
		if t == nil || len(t.trueSet) == 0 {
			return nil
		}
		return t
	}
	if m.emitter != nil {
		for _, ci := range allCalls(m.emitter, nil) {
			if t := isBoolTable(ci.Common().StaticCallee()); t != nil {
				m.mutating = t
			}
		}
	}
	for _, pa := range enumeratePaths(m.access.Blocks[0], 4000) {
		if len(pa.Ret.Results) != 1 || isNilConst(pa.Ret.Results[0]) {
			continue
		}
		conds := pathConds(pa)
		for i := len(conds) - 1; i >= 0; i-- {
			var field string
			switch {
			case isFieldLoad(conds[i].Cond, "MutationsEnabled") && !conds[i].Val:
				field = "MutationsEnabled"
			case isFieldLoad(conds[i].Cond, "RuntimeControlEnabled") && !conds[i].Val:
				field = "RuntimeControlEnabled"
			default:
				continue
			}
			for k := i - 1; k >= 0; k-- {
				call, ok := conds[k].Cond.(*ssa.Call)
				if !ok || !conds[k].Val {
					continue
				}
				if t := isBoolTable(call.Call.StaticCallee()); t != nil {
					if field == "MutationsEnabled" {
						m.mutFlag = t
					} else {
						m.rtFlag = t
					}
					break
				}
			}
			break
		}
	}
}

func splitAndExpr(e ast.Expr) []ast.Expr { return splitAnd(e) }

func (m *mcpModel) readDispatch() {
	fd := m.decl(m.dispatch)
	if fd == nil {
		return
	}
	pv := paramVarAt(m.info, fd, 0)
	if pv == nil {
		return
	}
	// the switch with handler calls in its clauses
	var best *ast.SwitchStmt
	bestN := 0
	ast.Inspect(fd.Body, func(n ast.Node) bool {
		sw, ok := n.(*ast.SwitchStmt)
		if !ok || sw.Tag == nil {
			return true
		}
		if t := m.info.TypeOf(sw.Tag); t == nil || !isStringT(t) {
			return true
		}
		if len(sw.Body.List) > bestN {
			best, bestN = sw, len(sw.Body.List)
		}
		return true
	})
	if best == nil {
		return
	}
	m.caseTag = strings.TrimSpace(strings.ReplaceAll(" "+types.ExprString(best.Tag)+" ", pv.Name(), "$"))
	for _, s := range best.Body.List {
		cc := s.(*ast.CaseClause)
		var h *ssa.Function
		ast.Inspect(cc, func(k ast.Node) bool {
			if ce, ok := k.(*ast.CallExpr); ok {
				if se, ok := ce.Fun.(*ast.SelectorExpr); ok {
					if obj, ok := m.info.Uses[se.Sel].(*types.Func); ok {
						if fn := m.p.SSA.FuncValue(obj); fn != nil && m.handlers[fn] {
							h = fn
						}
					}
				}
			}
			return true
		})
		for _, e := range cc.List {
			if lit, ok := m.constString(e); ok {
				m.cases[lit] = h
			}
		}
	}
}

func (m *mcpModel) readDescriptors() {
	fd := m.decl(m.descr)
	if fd == nil {
		return
	}
	parents := map[ast.Node]ast.Node{}
	var stack []ast.Node
	ast.Inspect(fd, func(n ast.Node) bool {
		if n == nil {
			stack = stack[:len(stack)-1]
			return true
		}
		if len(stack) > 0 {
			parents[n] = stack[len(stack)-1]
		}
		stack = append(stack, n)
		return true
	})
	ast.Inspect(fd.Body, func(n ast.Node) bool {
		cl, ok := n.(*ast.CompositeLit)
		if !ok {
			return true
		}
		t := m.info.TypeOf(cl)
		if t == nil || namedName(t) != "toolDescriptor" {
			return true
		}
		for _, e := range cl.Elts {
			kv, ok := e.(*ast.KeyValueExpr)
			if !ok {
				continue
			}
			if id, ok := kv.Key.(*ast.Ident); !ok || id.Name != "Name" {
				continue
			}
			lit, ok := m.constString(kv.Value)
			if !ok {
				lit = "?" + types.ExprString(kv.Value)
			}
			guard := ""
			child := ast.Node(cl)
			for cur := parents[cl]; cur != nil; child, cur = cur, parents[cur] {
				if is, ok := cur.(*ast.IfStmt); ok && is.Body == child {
					guard = types.ExprString(is.Cond)
				}
			}
			m.descrs[lit] = guard
			m.descrPos[lit] = cl.Pos()
		}
		return true
	})
}

func setKeys[V any](m map[string]V) []string {
	var out []string
	for k := range m {
		out = append(out, k)
	}
	sort.Strings(out)
	return out
}

func checkC20(c *Ctx) {
	c.Rule("C20.R1", "the gating tables agree: dispatch cases = domain of the required-role table = advertised descriptor names; the flag and mutating sets are inside that domain; every table and the dispatch switch key on the same (untransformed) tool name and receive the same value; a descriptor appended only under a server flag belongs to that flag's table")
	c.Rule("C20.R2", "gating matches effects: per tool, the effects its handler can reach in the call graph (queue mutation incl. non-GET admin proxy calls, file write/remove, process start/signal, process probing) imply the table entries: any effect ⇒ mutating ∧ a flag; queue mutation ⇒ role ≥ operate ∧ mutations flag; file write or process control ⇒ role admin; process control/probing ⇒ runtime-control flag ∧ role ≥ operate")
	c.Rule("C20.R3", "the access check dominates dispatch: every handler call is reachable only through the nil edge of the access check; the access check returns nil only on paths where the tool is known, each required flag is on, the role rank suffices for the table's role and, for mutating tools, the principal is non-empty")
	c.Rule("C20.R4", "tools/list agrees with tools/call: the descriptor list returned is built only by appends behind the nil edge of the same access check on the descriptor's own name")
	c.Rule("C20.R5", "audit on every outcome: every return of the call function after the access check is preceded by the audit emitter with result denied / error / success matching the branch; the emitter writes a record for every mutating tool when a writer is configured, with keys timestamp, principal, role, tool, input_hash, result, duration_ms")
	c.Rule("C20.R6", "confinement: every file write/remove/read path in the tool handlers derives from the config-path or pid-file resolver (or the configured field); a resolver returns a caller-supplied path only behind equality with the configured one; config rewrites validate before writing and restore on failure")
	c.Rule("C20.R7", "principal binding: in every handler of a tool whose schema accepts an actor, each effect is behind the ok edge of the audit-argument parser called with the configured principal, and that parser fails when actor and principal differ")

	m := newMCPModel(c)
	if m == nil || m.dispatch == nil || m.access == nil || m.emitter == nil || m.descr == nil || m.roleTab == nil {
		c.Undecided("C20.R1", "roles", "", fmt.Sprintf("could not identify the gating constructs in package mcp: %+v", m != nil))
		return
	}
	if m.mutFlag == nil || m.rtFlag == nil || m.mutating == nil {
		if m.mutFlag == nil {
			c.Fail("C20.R3", FuncName(m.access)+":refuses when a tool needs --enable-mutations and the flag is off", c.P.Pos(m.access.Pos()), "no path of the access check refuses on (table says the tool needs the mutations flag) ∧ ¬Server.MutationsEnabled")
		}
		if m.rtFlag == nil {
			c.Fail("C20.R3", FuncName(m.access)+":refuses when a tool needs --enable-runtime-control and the flag is off", c.P.Pos(m.access.Pos()), "no path of the access check refuses on (table says the tool needs the runtime-control flag) ∧ ¬Server.RuntimeControlEnabled")
		}
		if m.mutating == nil {
			c.Fail("C20.R5", FuncName(m.emitter)+":consults the mutating table", c.P.Pos(m.emitter.Pos()), "the audit emitter does not consult a tool-name table to decide whether a call is mutating")
		}
		return
	}
	c.Note("C20 roles: dispatch %s, access %s, emitter %s, descriptors %s, role table %s, mutations-flag table %s, runtime-flag table %s, mutating table %s",
		FuncName(m.dispatch), FuncName(m.access), FuncName(m.emitter), FuncName(m.descr), FuncName(m.roleTab.fn), FuncName(m.mutFlag.fn), FuncName(m.rtFlag.fn), FuncName(m.mutating.fn))
	c.Count("tool handlers (Server methods (map[string]any) (any, error))", len(m.handlers))
	c.Count("dispatch cases", len(m.cases))
	c.Count("descriptors", len(m.descrs))

	for _, st := range []struct {
		rule string
		f    func(*Ctx, *mcpModel, string)
	}{{"C20.R1", checkMCPTables}, {"C20.R2", checkMCPEffects}, {"C20.R3", checkMCPAccess}, {"C20.R4", checkMCPList}, {"C20.R5", checkMCPAudit}, {"C20.R6", checkMCPConfinement}, {"C20.R7", checkMCPPrincipal}} {
		t0 := time.Now()
		st.f(c, m, st.rule)
		if d := time.Since(t0); d > 2*time.Second {
			c.Note("%s took %.1fs", st.rule, d.Seconds())
		}
	}
}

func checkMCPTables(c *Ctx, m *mcpModel, rule string) {
	p := c.P
	all := map[string]bool{}
	for k := range m.cases {
		all[k] = true
	}
	for k := range m.roleTab.roles {
		all[k] = true
	}
	for k := range m.descrs {
		all[k] = true
	}
	for _, t := range []*mcpTable{m.mutFlag, m.rtFlag, m.mutating} {
		for k := range t.trueSet {
			all[k] = true
		}
	}
	for _, name := range setKeys(all) {
		_, inCase := m.cases[name]
		_, inRole := m.roleTab.roles[name]
		_, inDescr := m.descrs[name]
		ok := inCase && inRole && inDescr
		pos := p.Pos(m.roleTab.pos)
		if at, has := m.descrPos[name]; has {
			pos = p.Pos(at)
		}
		c.Check(ok, rule, "tool "+name+":in every table", pos,
			"dispatch case, required role "+m.roleTab.roles[name]+" and descriptor all present",
			fmt.Sprintf("tool appears in dispatch=%v role-table=%v descriptors=%v: a tool missing from one table is callable but unlisted, listed but uncallable, or ungated", inCase, inRole, inDescr))
		if inCase && m.cases[name] == nil {
			c.Fail(rule, "tool "+name+":dispatch clause calls a handler", p.Pos(m.dispatch.Pos()), "the dispatch clause calls no tool handler")
		}
		// descriptor appended under a flag
		if g := m.descrs[name]; g != "" {
			var tab *mcpTable
			switch {
			case strings.HasSuffix(g, ".MutationsEnabled"):
				tab = m.mutFlag
			case strings.HasSuffix(g, ".RuntimeControlEnabled"):
				tab = m.rtFlag
			}
			if tab == nil {
				c.Undecided(rule, "tool "+name+":descriptor guard", p.Pos(m.descrPos[name]), "descriptor is appended under an unrecognised condition "+g)
			} else {
				c.Check(tab.trueSet[name], rule, "tool "+name+":descriptor guard matches flag table", p.Pos(m.descrPos[name]),
					"appended under "+g+" and listed in "+FuncName(tab.fn),
					"the descriptor is appended only when "+g+" but "+FuncName(tab.fn)+" does not require that flag for it: with the flag off the tool is callable yet not advertised")
			}
		}
	}
	c.Floor(rule, "tools", len(all), 25)
	// same key everywhere
	tabs := []*mcpTable{m.roleTab, m.mutFlag, m.rtFlag, m.mutating}
	for _, t := range tabs {
		c.Check(t.tag == "$", rule, FuncName(t.fn)+":switch key", p.Pos(t.pos),
			"switches on the tool name itself",
			"switches on "+t.tag+" while the other tables use the raw name: names differing only by that transformation are gated by one table and not by another")
	}
	c.Check(m.caseTag == "$", rule, FuncName(m.dispatch)+":switch key", p.Pos(m.dispatch.Pos()),
		"dispatches on the tool name itself", "dispatches on "+m.caseTag+" while the tables use the raw name")
	// same value passed
	for _, fn := range []*ssa.Function{m.dispatch, m.access, m.emitter} {
		var nameParam ssa.Value
		for _, pr := range fn.Params {
			if isStringT(pr.Type()) && nameParam == nil {
				nameParam = pr
			}
		}
		for _, ci := range allCalls(fn, nil) {
			g := ci.Common().StaticCallee()
			if g == nil {
				continue
			}
			isGate := g == m.access || g == m.emitter || g == m.roleTab.fn || g == m.mutFlag.fn || g == m.rtFlag.fn || g == m.mutating.fn
			if !isGate {
				continue
			}
			// the string tool-name argument: first string-typed argument after the receiver
			var arg ssa.Value
			for i, a := range ci.Common().Args {
				if g.Signature.Recv() != nil && i == 0 {
					continue
				}
				if isStringT(a.Type()) {
					arg = a
					break
				}
			}
			v := arg
			if v != nil {
				if o, _ := origin(v); o != nil {
					v = o
				}
			}
			c.Check(v == nameParam, rule, fmt.Sprintf("%s:passes its tool name unchanged to %s", FuncName(fn), FuncName(g)), p.InstrPos(ci),
				"argument is the function's own name parameter",
				"the gating function receives "+shortVal(arg)+" instead of the tool name the caller was given")
		}
	}
}

// ---------------------------------------------------------------------------
// R2 effects

type mcpEffects struct {
	queueMut, proxyMut, fileWrite, proc, probe []string
}

func (m *mcpModel) effectsOf(h *ssa.Function) mcpEffects {
	p := m.p
	var e mcpEffects
	if p.mutFns == nil {
		reachesQueueMutation(p, h) // initialises p.mutFns
	}
	reach := p.Reach(h)
	for _, g := range sortedFuncs(reach) {
		if !IsModuleFunc(g) {
			continue // effects are counted where module code calls the OS, not inside the standard library
		}
		if p.mutFns[g] && !m.isRetentionMaintenance(g) {
			e.queueMut = append(e.queueMut, FuncName(g))
		}
		for _, ci := range allCalls(g, nil) {
			callee := ci.Common().StaticCallee()
			if callee == nil {
				continue
			}
			if w := isFileWriteSink(ci); w != "" {
				e.fileWrite = append(e.fileWrite, "os."+w+" in "+FuncName(g))
			}
			if callee.Pkg != nil {
				switch callee.Pkg.Pkg.Path() {
				case "os/exec":
					switch callee.Name() {
					case "Command", "CommandContext", "Start", "Run", "Output", "CombinedOutput":
						e.proc = append(e.proc, "exec."+callee.Name()+" in "+FuncName(g))
					}
				case "syscall":
					if callee.Name() == "Kill" && len(ci.Common().Args) == 2 {
						if n, ok := intConst(ci.Common().Args[1]); ok && n == 0 {
							e.probe = append(e.probe, "syscall.Kill(pid, 0) in "+FuncName(g))
						} else {
							e.proc = append(e.proc, "syscall.Kill in "+FuncName(g))
						}
					}
				case "os":
					if callee.Signature.Recv() != nil && namedName(callee.Signature.Recv().Type()) == "Process" && (callee.Name() == "Kill" || callee.Name() == "Signal") {
						e.proc = append(e.proc, "Process."+callee.Name()+" in "+FuncName(g))
					}
				}
			}
			// admin proxy: a Server method taking an HTTP method string followed by a path
			if callee.Signature.Recv() != nil && namedName(callee.Signature.Recv().Type()) == "Server" && callee.Name() == "callAdminJSON" {
				args := ci.Common().Args
				if len(args) >= 3 {
					if cst, ok := args[2].(*ssa.Const); ok && cst.Value != nil {
						meth := strings.Trim(cst.Value.ExactString(), `"`)
						if meth != "GET" && meth != "HEAD" {
							e.proxyMut = append(e.proxyMut, meth+" via callAdminJSON in "+FuncName(g))
						}
					} else {
						e.proxyMut = append(e.proxyMut, "non-constant method via callAdminJSON in "+FuncName(g))
					}
				}
			}
		}
	}
	return e
}

// isRetentionMaintenance: a shared helper (>= 4 call sites) whose only queue_items statements are DELETEs —
// the store's own retention pruning, which applies the operator's configured policy on any access
// (the same exemption as C02.R4); it is not an effect a caller can direct.
func (m *mcpModel) isRetentionMaintenance(g *ssa.Function) bool {
	p := m.p
	if m.maint == nil {
		m.maint = map[*ssa.Function]bool{}
		nonDelete := map[*ssa.Function]bool{}
		for _, s := range p.SQL().Stmts {
			if s.Fn == nil || !s.IsMutation() || s.Table() != "queue_items" {
				continue
			}
			if s.Verb() != "DELETE" {
				nonDelete[s.Fn] = true
			}
			m.maint[s.Fn] = true
		}
		for f := range m.maint {
			if nonDelete[f] || p.SharedBy(f) < 4 {
				m.maint[f] = false
			}
		}
	}
	return m.maint[g]
}

func roleRankOf(name string) int {
	switch {
	case strings.HasSuffix(name, "Admin"):
		return 3
	case strings.HasSuffix(name, "Operate"):
		return 2
	case strings.HasSuffix(name, "Read"):
		return 1
	}
	return 0
}

func first(xs []string) string {
	if len(xs) == 0 {
		return ""
	}
	if len(xs) == 1 {
		return xs[0]
	}
	return fmt.Sprintf("%s (+%d more)", xs[0], len(xs)-1)
}

func checkMCPEffects(c *Ctx, m *mcpModel, rule string) {
	p := c.P
	nEff := 0
	for _, name := range setKeys(m.cases) {
		h := m.cases[name]
		if h == nil {
			continue
		}
		e := m.effectsOf(h)
		rank := roleRankOf(m.roleTab.roles[name])
		mutF, rtF, mut := m.mutFlag.trueSet[name], m.rtFlag.trueSet[name], m.mutating.trueSet[name]
		pos := p.Pos(h.Pos())
		gate := fmt.Sprintf("role=%s mutations-flag=%v runtime-flag=%v mutating=%v", m.roleTab.roles[name], mutF, rtF, mut)
		if rank == 0 {
			c.Undecided(rule, "tool "+name+":role", pos, "unrecognised role constant "+m.roleTab.roles[name])
			continue
		}
		anyEff := len(e.queueMut)+len(e.proxyMut)+len(e.fileWrite)+len(e.proc) > 0
		if anyEff {
			nEff++
			what := first(append(append(append(append([]string{}, e.queueMut...), e.proxyMut...), e.fileWrite...), e.proc...))
			c.Check(mut && (mutF || rtF), rule, "tool "+name+":effectful ⇒ mutating ∧ flag-gated", pos,
				"reaches "+what+"; "+gate,
				"the handler reaches "+what+" but the tables say "+gate+": it runs without a feature flag, principal or audit record")
		} else {
			c.Ok(rule, "tool "+name+":no mutation effect reachable", pos, gate)
		}
		if len(e.queueMut)+len(e.proxyMut) > 0 {
			what := first(append(append([]string{}, e.queueMut...), e.proxyMut...))
			c.Check(rank >= 2 && mutF, rule, "tool "+name+":queue mutation ⇒ role ≥ operate ∧ mutations flag", pos,
				"reaches "+what+"; "+gate, "the handler can change queue contents ("+what+") but "+gate)
		}
		if len(e.fileWrite)+len(e.proc) > 0 {
			what := first(append(append([]string{}, e.fileWrite...), e.proc...))
			c.Check(rank == 3, rule, "tool "+name+":file write / process control ⇒ role admin", pos,
				"reaches "+what+"; "+gate, "the handler can write files or control processes ("+what+") but "+gate)
		}
		if len(e.proc)+len(e.probe) > 0 {
			what := first(append(append([]string{}, e.proc...), e.probe...))
			c.Check(rank >= 2 && rtF, rule, "tool "+name+":process control/probing ⇒ runtime-control flag ∧ role ≥ operate", pos,
				"reaches "+what+"; "+gate, "the handler can start, signal or probe processes ("+what+") but "+gate)
		}
	}
	c.Count("tools with a mutation effect reachable", nEff)
	c.Floor(rule, "effectful tools", nEff, 12)
}

// astInspectAt calls f for every constant string key inside the composite literal at pos.
func astInspectAt(fd *ast.FuncDecl, pos token.Pos, f func(string), m *mcpModel) {
	ast.Inspect(fd.Body, func(n ast.Node) bool {
		cl, ok := n.(*ast.CompositeLit)
		if !ok || cl.Pos() != pos {
			return true
		}
		ast.Inspect(cl, func(k ast.Node) bool {
			if kv, ok := k.(*ast.KeyValueExpr); ok {
				if s, ok := m.constString(kv.Key); ok {
					f(s)
				}
			}
			return true
		})
		return false
	})
}
