package main

import (
	"fmt"
	"regexp"
	"go/token"
	"go/types"
	"strings"

	"golang.org/x/tools/go/ssa"
)

// C04.R5 — which lease ids enter the idempotency cache.
//
// The cache answers a later duplicate with success, so the id written must be one the Store just
// settled: the very id handed to the Store call that returned nil, or — after a batch call — a
// presented id that is absent from the batch result's conflict list. The second case is a set
// difference; it is only right when membership is tested by *presence* of the id among all
// conflicts, not by some property of the conflict.

func rangeSource(v ssa.Value) (ssa.Value, bool) {
	// v = *(&X[i])  in a range loop
	if u, ok := v.(*ssa.UnOp); ok && u.Op == token.MUL {
		if ia, ok := u.X.(*ssa.IndexAddr); ok {
			return ia.X, true
		}
	}
	return nil, false
}

func sameOriginLoad(a, b ssa.Value) bool {
	if a == b {
		return true
	}
	oa, ia := origin(a)
	ob, ib := origin(b)
	if oa != nil && oa == ob && ia == ib {
		return true
	}
	// two loads of the same element address
	ua, ok1 := a.(*ssa.UnOp)
	ub, ok2 := b.(*ssa.UnOp)
	return ok1 && ok2 && ua.Op == token.MUL && ub.Op == token.MUL && ua.X == ub.X
}

func isConflictSlice(t types.Type) bool {
	sl, ok := t.Underlying().(*types.Slice)
	if !ok {
		return false
	}
	st, ok := sl.Elem().Underlying().(*types.Struct)
	if !ok {
		return false
	}
	for i := 0; i < st.NumFields(); i++ {
		if st.Field(i).Name() == "LeaseID" {
			return true
		}
	}
	return false
}

func isStringSlice(t types.Type) bool {
	sl, ok := t.Underlying().(*types.Slice)
	return ok && isStringT(sl.Elem())
}

// presenceMapOf decides whether map value mp (in fn) holds exactly the LeaseIDs of every element of
// the conflict slice `conf`, and whether a plain value lookup is equivalent to a presence test.
// Returns (built from all conflicts, value-lookup-is-presence, explanation).
func presenceMapOf(p *Program, fn *ssa.Function, mp ssa.Value, conf ssa.Value, depth int) (bool, bool, string) {
	if depth > 2 {
		return false, false, "helper chain too deep"
	}
	switch x := mp.(type) {
	case *ssa.MakeMap:
		var updates []*ssa.MapUpdate
		for _, ref := range *x.Referrers() {
			if mu, ok := ref.(*ssa.MapUpdate); ok && mu.Map == x {
				updates = append(updates, mu)
			}
		}
		if len(updates) == 0 {
			return false, false, "the set is never filled"
		}
		allTrue := true
		for _, mu := range updates {
			// key: field LeaseID of an element of conf
			keyOK := false
			var elemAddr ssa.Value
			switch k := mu.Key.(type) {
			case *ssa.Field:
				st := k.X.Type().Underlying().(*types.Struct)
				if st.Field(k.Field).Name() == "LeaseID" {
					if src, ok := rangeSource(k.X); ok && sameOriginLoad(src, conf) {
						keyOK = true
						elemAddr = k.X
					}
				}
			case *ssa.UnOp:
				if fa, ok := k.X.(*ssa.FieldAddr); ok {
					if _, f, _ := fieldAddrName(fa); f == "LeaseID" {
						if ia, ok := fa.X.(*ssa.IndexAddr); ok && sameOriginLoad(ia.X, conf) {
							keyOK = true
							elemAddr = ia
						}
						// a local copy of the element
						if al, ok := fa.X.(*ssa.Alloc); ok {
							for _, ref := range *al.Referrers() {
								if st, ok := ref.(*ssa.Store); ok && st.Addr == al {
									if src, ok := rangeSource(st.Val); ok && sameOriginLoad(src, conf) {
										keyOK = true
										elemAddr = al
									}
								}
							}
						}
					}
				}
			}
			_ = elemAddr
			if !keyOK {
				return false, false, "a set entry at " + p.InstrPos(mu) + " is not keyed by a conflict's LeaseID"
			}
			// unconditional in the loop over the conflicts: the update's block is the loop body entry
			h := loopHeaderOf(mu.Block())
			if h == nil {
				return false, false, "the set is not filled in a loop over the conflicts"
			}
			if ok, _ := p.LoopIterationsPass(h, []Edge{}); ok {
				// (LoopIterationsPass with no edges is trivially false; we use the block test below)
			}
			uncond := false
			for i, s := range h.Succs {
				if s == mu.Block() {
					uncond = true
					_ = i
				}
			}
			if !uncond {
				return false, false, "a conflict can be skipped before it is added to the set (conditional insert at " + p.InstrPos(mu) + ")"
			}
			if cst, ok := mu.Value.(*ssa.Const); !ok || cst.Value == nil || cst.Value.ExactString() != "true" {
				allTrue = false
			}
		}
		return true, allTrue, "set keyed by LeaseID of every conflict"
	case *ssa.Call:
		g := x.Call.StaticCallee()
		if g == nil || !IsModuleFunc(g) || len(g.Blocks) == 0 {
			return false, false, "the set comes from " + shortVal(mp)
		}
		// which parameter receives the conflicts
		var gp ssa.Value
		for i, a := range x.Call.Args {
			if sameOriginLoad(a, conf) && i < len(g.Params) {
				gp = g.Params[i]
			}
		}
		if gp == nil {
			return false, false, "the helper " + g.Name() + " is not given the conflict list"
		}
		all, pres := true, true
		why := ""
		for _, r := range returnsOf(g) {
			a, b, w := presenceMapOf(p, g, r.Results[0], gp, depth+1)
			all, pres = all && a, pres && b
			why = w
		}
		return all, pres, why + " (built by " + g.Name() + ")"
	case *ssa.Phi:
		all, pres := true, true
		why := ""
		for _, e := range x.Edges {
			a, b, w := presenceMapOf(p, fn, e, conf, depth)
			all, pres = all && a, pres && b
			why = w
		}
		return all, pres, why
	}
	return false, false, "the set comes from " + shortVal(mp)
}

// checkSetDifference: F(ids, conflicts) returns only ids that are absent from the conflicts.
func checkSetDifference(c *Ctx, rule string, F *ssa.Function) {
	p := c.P
	var ids, conf ssa.Value
	for _, pr := range F.Params {
		if isStringSlice(pr.Type()) {
			ids = pr
		}
		if isConflictSlice(pr.Type()) {
			conf = pr
		}
	}
	name := FuncName(F)
	if ids == nil || conf == nil {
		c.Undecided(rule, name+":shape", p.Pos(F.Pos()), "expected parameters (ids []string, conflicts []…{LeaseID})")
		return
	}
	n := 0
	for _, b := range F.Blocks {
		for _, ins := range b.Instrs {
			call, ok := ins.(*ssa.Call)
			if !ok {
				continue
			}
			bi, ok := call.Call.Value.(*ssa.Builtin)
			if !ok || bi.Name() != "append" || len(call.Call.Args) != 2 || !isStringSlice(call.Type()) {
				continue
			}
			arg := call.Call.Args[1]
			// whole-slice copy of the presented ids
			if sameOriginLoad(arg, ids) {
				n++
				// only when there are no conflicts
				okEdge := false
				var through []Edge
				for _, bb := range F.Blocks {
					ifi, isIf := bb.Instrs[len(bb.Instrs)-1].(*ssa.If)
					if !isIf {
						continue
					}
					for i := 0; i < 2; i++ {
						a := condAtom(ifi.Cond, i == 0)
						if lc, isCall := a.X.(*ssa.Call); isCall {
							if lb, isB := lc.Call.Value.(*ssa.Builtin); isB && lb.Name() == "len" && sameOriginLoad(lc.Call.Args[0], conf) && isIntConst(a.Y, 0) && a.Op == token.EQL {
								through = append(through, Edge{bb, i})
							}
						}
					}
				}
				if len(through) > 0 {
					okEdge, _ = p.MustPass(F, call, through)
				}
				c.Check(okEdge, rule, name+":all ids only when there are no conflicts", p.InstrPos(call),
					"the whole id list is returned only behind len(conflicts) == 0", "every presented id is reported successful although the conflict list may be non-empty")
				continue
			}
			// single element of ids
			var elem ssa.Value
			if sl, isSl := arg.(*ssa.Slice); isSl {
				if al, isAl := sl.X.(*ssa.Alloc); isAl {
					for _, ref := range *al.Referrers() {
						if ia, isIA := ref.(*ssa.IndexAddr); isIA {
							for _, r2 := range *ia.Referrers() {
								if st, isSt := r2.(*ssa.Store); isSt && st.Addr == ia {
									elem = st.Val
								}
							}
						}
					}
				}
			}
			if elem == nil {
				continue
			}
			src, isRange := rangeSource(elem)
			if !isRange || !sameOriginLoad(src, ids) {
				c.Fail(rule, name+":returns only presented ids", p.InstrPos(call), "an id that is not an element of the presented id list is reported successful ("+shortVal(elem)+")")
				continue
			}
			n++
			// guard: absence in the conflict set
			construct := fmt.Sprintf("%s:id kept only when absent from the conflicts#%d", name, n)
			var absent []Edge
			why := "no membership test on the id found"
			for _, bb := range F.Blocks {
				ifi, isIf := bb.Instrs[len(bb.Instrs)-1].(*ssa.If)
				if !isIf {
					continue
				}
				cond := ifi.Cond
				neg := false
				for {
					if u, isU := cond.(*ssa.UnOp); isU && u.Op == token.NOT {
						cond, neg = u.X, !neg
						continue
					}
					break
				}
				var lk *ssa.Lookup
				commaOK := false
				switch x := cond.(type) {
				case *ssa.Extract:
					if l, isL := x.Tuple.(*ssa.Lookup); isL && l.CommaOk && x.Index == 1 {
						lk, commaOK = l, true
					}
				case *ssa.Lookup:
					lk = x
				}
				if lk == nil || !sameOriginLoad(lk.Index, elem) {
					continue
				}
				all, valueIsPresence, expl := presenceMapOf(p, F, lk.X, conf, 0)
				if !all {
					why = expl
					continue
				}
				if !commaOK && !valueIsPresence {
					why = "membership is decided by the value stored for the id (" + expl + "), not by its presence: conflicts whose stored value is false are reported successful"
					continue
				}
				// the edge on which the id is absent
				idx := 1
				if neg {
					idx = 0
				}
				absent = append(absent, Edge{bb, idx})
				why = expl
			}
			if len(absent) == 0 {
				c.Fail(rule, construct, p.InstrPos(call), why)
				continue
			}
			// within the iteration
			start := F.Blocks[0]
			if h := loopHeaderOf(call.Block()); h != nil {
				start = h
			}
			av := EdgeSet{}
			av.addAll(absent)
			_, reached := reach([]*ssa.BasicBlock{start}, av, nil)[call.Block()]
			c.Check(!reached, rule, construct, p.InstrPos(call), "kept only on the not-present edge of the lookup in a "+why, "the id is kept on a path that does not establish its absence from the conflict set")
		}
	}
	if n == 0 {
		c.Undecided(rule, name+":appends", p.Pos(F.Pos()), "no append of presented ids found")
	}
}

func checkCacheKeys(c *Ctx, rule string) {
	p := c.P
	writers := map[*ssa.Function]bool{}
	for _, f := range p.MethodsOf("pullapi", "Server") {
		for _, b := range f.Blocks {
			for _, ins := range b.Instrs {
				if mu, ok := ins.(*ssa.MapUpdate); ok {
					if tn, _, ok := fieldOfLoad(mu.Map); ok && tn == "Server" {
						writers[f] = true
					}
				}
			}
		}
	}
	checked := map[*ssa.Function]bool{}
	n := 0
	for _, fn := range p.MethodsOf("pullapi", "Server") {
		storeCalls := allCalls(fn, func(ci ssa.CallInstruction) bool {
			com := ci.Common()
			return com.IsInvoke() && namedPkgPath(com.Value.Type()) == queuePath && (storeLeaseMethods[com.Method.Name()] || strings.HasSuffix(com.Method.Name(), "Batch"))
		})
		if len(storeCalls) == 0 {
			continue
		}
		for _, w := range allCalls(fn, func(ci ssa.CallInstruction) bool { f := ci.Common().StaticCallee(); return f != nil && writers[f] }) {
			var id ssa.Value
			for i, a := range w.Common().Args {
				if i > 0 && isStringT(a.Type()) && id == nil {
					id = a
				}
			}
			if id == nil {
				continue
			}
			n++
			construct := fmt.Sprintf("%s:cached id is a settled id#%d", FuncName(fn), n)
			// (A) the id handed to a per-id Store call
			same := false
			for _, sc := range storeCalls {
				if len(sc.Common().Args) >= 1 && sameOriginLoad(sc.Common().Args[0], id) {
					same = true
				}
			}
			if same {
				c.Ok(rule, construct, p.InstrPos(w), "the id written is the id just passed to the Store call")
				continue
			}
			// (B) element of F(ids, batchResult.Conflicts)
			src, isRange := rangeSource(id)
			if call, ok := src.(*ssa.Call); ok && isRange {
				F := call.Call.StaticCallee()
				if F != nil && IsModuleFunc(F) {
					// the conflict argument must be the batch result's Conflicts, the ids the ones given to the batch call
					confOK, idsOK := false, false
					for _, a := range call.Call.Args {
						if isConflictSlice(a.Type()) {
							var base ssa.Value
							switch x := a.(type) {
							case *ssa.Field:
								base = x.X
							case *ssa.UnOp:
								if fa, ok := x.X.(*ssa.FieldAddr); ok {
									if al, ok := fa.X.(*ssa.Alloc); ok {
										for _, ref := range *al.Referrers() {
											if st, ok := ref.(*ssa.Store); ok && st.Addr == al {
												base = st.Val
											}
										}
									}
								}
							}
							if base != nil {
								if o, _ := origin(base); o != nil {
									for _, sc := range storeCalls {
										if v, isV := sc.(ssa.Value); isV && v == o {
											confOK = true
										}
									}
								}
							}
						}
						if isStringSlice(a.Type()) {
							for _, sc := range storeCalls {
								if len(sc.Common().Args) >= 1 && sameOriginLoad(sc.Common().Args[0], a) {
									idsOK = true
								}
							}
						}
					}
					c.Check(confOK && idsOK, rule, construct, p.InstrPos(w),
						"element of "+F.Name()+"(ids given to the batch call, that call's Conflicts)",
						"the ids remembered come from "+F.Name()+" applied to something other than the batch call's own ids and conflict list")
					if !checked[F] {
						checked[F] = true
						checkSetDifference(c, rule, F)
					}
					continue
				}
			}
			c.Undecided(rule, construct, p.InstrPos(w), "cannot relate the cached id "+shortVal(id)+" to a Store call")
		}
	}
	c.Floor(rule, "cache writes", n, 6)
	c.Floor(rule, "set-difference helpers checked", len(checked), 1)
}

// checkLeaseIDNormalisers (C04.R6): the batch lease-id normalisers of the HTTP and gRPC transports forward each id in
// exactly the form they de-duplicated it under, and both use the same normalisation. The stores and the idempotency
// cache key lease ids by their trimmed form; an id forwarded in any other spelling is reported as a conflict under
// one spelling and remembered as settled under another.
func checkLeaseIDNormalisers(c *Ctx, rule string) {
	p := c.P
	type norm struct {
		fn        *ssa.Function
		elemTerms []string
		keyTerms  []string
	}
	var norms []norm
	for _, pkg := range []string{"pullapi", "workerapi"} {
		for _, fn := range p.FuncsInPkg(pkg) {
			rs := fn.Signature.Results()
			if fn.Signature.Recv() != nil || rs.Len() != 3 || !isStringSlice(rs.At(0).Type()) || rs.At(1).Type().String() != "bool" {
				continue
			}
			nm := norm{fn: fn}
			env := termEnv{fn: fn}
			for _, b := range fn.Blocks {
				for _, ins := range b.Instrs {
					switch x := ins.(type) {
					case *ssa.Call:
						bi, ok := x.Call.Value.(*ssa.Builtin)
						if !ok || bi.Name() != "append" || !isStringSlice(x.Type()) || loopHeaderOf(b) == nil {
							continue
						}
						if sl, ok := x.Call.Args[1].(*ssa.Slice); ok {
							if al, ok := sl.X.(*ssa.Alloc); ok {
								for _, ref := range *al.Referrers() {
									if ia, ok := ref.(*ssa.IndexAddr); ok {
										for _, r2 := range *ia.Referrers() {
											if st, ok := r2.(*ssa.Store); ok && st.Addr == ia {
												nm.elemTerms = append(nm.elemTerms, termOf(st.Val, env))
											}
										}
									}
								}
							}
						}
					case *ssa.MapUpdate:
						if loopHeaderOf(b) != nil {
							nm.keyTerms = append(nm.keyTerms, termOf(x.Key, env))
						}
					}
				}
			}
			if len(nm.elemTerms) > 0 && len(nm.keyTerms) > 0 {
				norms = append(norms, nm)
			}
		}
	}
	reElem := regexp.MustCompile(`\*&[^()\[\] ]*\[\]`)
	for i := range norms {
		for j, t := range norms[i].elemTerms {
			norms[i].elemTerms[j] = reElem.ReplaceAllString(t, "id")
		}
		for j, t := range norms[i].keyTerms {
			norms[i].keyTerms[j] = reElem.ReplaceAllString(t, "id")
		}
	}
	for _, nm := range norms {
		e, k := dedupe(nm.elemTerms), dedupe(nm.keyTerms)
		ok := len(e) == 1 && len(k) == 1 && e[0] == k[0]
		c.Check(ok, rule, FuncName(nm.fn)+":forwards each lease id in the form it was de-duplicated under", p.Pos(nm.fn.Pos()),
			"forwarded = dedupe key = "+strings.Join(k, ","),
			"the id appended to the batch is "+strings.Join(e, " | ")+" but the dedupe/blank key is "+strings.Join(k, " | ")+": the Store and the idempotency cache see a spelling other than the normalised one (conflicts are reported under the trimmed id, so a stale padded id is remembered as settled)")
	}
	if len(norms) >= 2 {
		a, b := dedupe(norms[0].elemTerms), dedupe(norms[1].elemTerms)
		c.Check(strings.Join(a, "|") == strings.Join(b, "|"), rule, "lease-id normalisers:HTTP and gRPC agree", p.Pos(norms[0].fn.Pos()),
			"both forward "+strings.Join(a, ","), "the HTTP normaliser forwards "+strings.Join(a, ",")+" but the gRPC one "+strings.Join(b, ","))
	}
	c.Floor(rule, "batch lease-id normalisers", len(norms), 2)
}
