package main

import (
	"fmt"

	"golang.org/x/tools/go/ssa"
)

// C18.R8 — the bytes read from the config file stay what they were.
//
// Both rewrite paths read the file, hand the bytes to config.Parse (and to the formatter's helpers), write the new
// content, and on a later failure write "the previous bytes" back. That only restores the file if nobody wrote
// through the slice in between. Rule: no function of package config writes through a []byte parameter — no index
// store, no copy into it, and no append onto (a reslice of) it, which writes into the caller's backing array.

func derivesFromByteParam(v ssa.Value, fn *ssa.Function, depth int, seen map[ssa.Value]bool) (*ssa.Parameter, bool) {
	if v == nil || depth > 8 || seen[v] {
		return nil, false
	}
	seen[v] = true
	switch x := v.(type) {
	case *ssa.Parameter:
		if isByteSlice(x.Type()) {
			return x, true
		}
	case *ssa.Slice:
		return derivesFromByteParam(x.X, fn, depth+1, seen)
	case *ssa.Phi:
		for _, e := range x.Edges {
			if p, ok := derivesFromByteParam(e, fn, depth+1, seen); ok {
				return p, true
			}
		}
	case *ssa.Call:
		if bi, ok := x.Call.Value.(*ssa.Builtin); ok && bi.Name() == "append" {
			return derivesFromByteParam(x.Call.Args[0], fn, depth+1, seen)
		}
	case *ssa.UnOp:
		if al, ok := x.X.(*ssa.Alloc); ok {
			for _, ref := range *al.Referrers() {
				if st, ok := ref.(*ssa.Store); ok && st.Addr == al {
					if p, ok := derivesFromByteParam(st.Val, fn, depth+1, seen); ok {
						return p, true
					}
				}
			}
		}
	case *ssa.ChangeType:
		return derivesFromByteParam(x.X, fn, depth+1, seen)
	}
	return nil, false
}

func checkInputBytesImmutable(c *Ctx, rule string) {
	p := c.P
	n := 0
	for _, pkg := range []string{"config"} {
		for _, fn := range p.FuncsInPkg(pkg) {
			has := false
			for _, pr := range fn.Params {
				if isByteSlice(pr.Type()) {
					has = true
				}
			}
			if !has {
				continue
			}
			n++
			bad := ""
			for _, b := range fn.Blocks {
				for _, ins := range b.Instrs {
					switch x := ins.(type) {
					case *ssa.Store:
						if ia, ok := x.Addr.(*ssa.IndexAddr); ok {
							if pr, ok := derivesFromByteParam(ia.X, fn, 0, map[ssa.Value]bool{}); ok {
								bad = "index store into parameter " + pr.Name() + " at " + p.InstrPos(x)
							}
						}
					case *ssa.Call:
						if bi, ok := x.Call.Value.(*ssa.Builtin); ok {
							switch bi.Name() {
							case "append":
								if pr, ok := derivesFromByteParam(x.Call.Args[0], fn, 0, map[ssa.Value]bool{}); ok {
									bad = "append onto (a reslice of) parameter " + pr.Name() + " at " + p.InstrPos(x) + " writes into the caller's backing array"
								}
							case "copy":
								if pr, ok := derivesFromByteParam(x.Call.Args[0], fn, 0, map[ssa.Value]bool{}); ok {
									bad = "copy into parameter " + pr.Name() + " at " + p.InstrPos(x)
								}
							}
						}
					}
				}
			}
			c.Check(bad == "", rule, fmt.Sprintf("config.%s:does not write through its []byte parameter", fn.Name()), p.Pos(fn.Pos()),
				"the input bytes are only read",
				bad+": the rewrite paths keep the bytes they read from the config file to restore it on failure; after this call those bytes are no longer the file's previous content, so a failed mutation \"restores\" a corrupted file")
		}
	}
	c.Floor(rule, "config functions taking []byte", n, 3)
}
