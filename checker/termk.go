package main

// Symbolic terms of string-valued SSA values over the parameters of a function: used to compare how
// sibling code derives "the same" key (normalisation chains such as path.Clean/TrimSuffix/TrimSpace).
// Module helpers with a body are inlined (bounded depth); anything not understood prints as "?…" and
// never compares equal by accident because the description includes the instruction.

import (
	"go/token"
	"go/types"
	"sort"
	"strings"

	"golang.org/x/tools/go/ssa"
)

type termEnv struct {
	fn    *ssa.Function
	subst map[*ssa.Parameter]string // parameter -> term it stands for (composition across calls)
	depth int
}

func termOf(v ssa.Value, env termEnv) string {
	return termRec(v, env, map[ssa.Value]bool{})
}

func termRec(v ssa.Value, env termEnv, seen map[ssa.Value]bool) string {
	if v == nil {
		return "nil"
	}
	if seen[v] {
		return "…"
	}
	seen[v] = true
	defer delete(seen, v)
	switch x := v.(type) {
	case *ssa.Const:
		if x.Value == nil {
			return "nil"
		}
		return x.Value.ExactString()
	case *ssa.Parameter:
		if t, ok := env.subst[x]; ok {
			return t
		}
		for i, p := range env.fn.Params {
			if p == x {
				return "$" + itoa(i)
			}
		}
		return "$" + x.Name()
	case *ssa.ChangeType:
		return termRec(x.X, env, seen)
	case *ssa.Convert:
		return termRec(x.X, env, seen)
	case *ssa.Phi:
		var parts []string
		for _, e := range x.Edges {
			parts = append(parts, termRec(e, env, seen))
		}
		sort.Strings(parts)
		// dedupe
		var out []string
		for i, s := range parts {
			if i == 0 || s != parts[i-1] {
				out = append(out, s)
			}
		}
		if len(out) == 1 {
			return out[0]
		}
		return "phi{" + strings.Join(out, " | ") + "}"
	case *ssa.BinOp:
		return "(" + termRec(x.X, env, seen) + x.Op.String() + termRec(x.Y, env, seen) + ")"
	case *ssa.Extract:
		if call, ok := x.Tuple.(*ssa.Call); ok {
			if g := call.Call.StaticCallee(); g != nil && IsModuleFunc(g) && len(g.Blocks) > 0 && env.depth < 4 {
				// the x.Index-th result of a module function: its term over the arguments
				return callResultTerm(call, g, x.Index, env, seen)
			}
		}
		return termRec(x.Tuple, env, seen) + "#" + itoa(x.Index)
	case *ssa.UnOp:
		if x.Op != token.MUL {
			return x.Op.String() + termRec(x.X, env, seen)
		}
		switch a := x.X.(type) {
		case *ssa.FieldAddr:
			_, f, _ := fieldAddrName(a)
			return termRec(a.X, env, seen) + "." + f
		case *ssa.Alloc:
			if sp := spilledParam(a); sp != nil {
				return termRec(sp, env, seen)
			}
			var parts []string
			for _, ref := range *a.Referrers() {
				if st, ok := ref.(*ssa.Store); ok && st.Addr == a {
					parts = append(parts, termRec(st.Val, env, seen))
				}
			}
			sort.Strings(parts)
			if len(parts) == 1 {
				return parts[0]
			}
			return "cell{" + strings.Join(parts, " | ") + "}"
		}
		return "*" + termRec(x.X, env, seen)
	case *ssa.IndexAddr:
		return "&" + termRec(x.X, env, seen) + "[]"
	case *ssa.FieldAddr:
		_, f, _ := fieldAddrName(x)
		return "&" + termRec(x.X, env, seen) + "." + f
	case *ssa.Field:
		st := x.X.Type().Underlying().(*types.Struct)
		return termRec(x.X, env, seen) + "." + st.Field(x.Field).Name()
	case *ssa.Call:
		g := x.Call.StaticCallee()
		if g == nil {
			if bi, ok := x.Call.Value.(*ssa.Builtin); ok {
				var args []string
				for _, a := range x.Call.Args {
					args = append(args, termRec(a, env, seen))
				}
				return bi.Name() + "(" + strings.Join(args, ",") + ")"
			}
			return "?dyn-call@" + itoa(int(x.Pos()))
		}
		var args []string
		for _, a := range x.Call.Args {
			args = append(args, termRec(a, env, seen))
		}
		if IsModuleFunc(g) && len(g.Blocks) > 0 && env.depth < 4 {
			// inline: the term(s) of its first result over its own parameters, with the arguments substituted
			return callResultTerm(x, g, 0, env, seen)
		}
		name := g.Name()
		if g.Pkg != nil {
			name = g.Pkg.Pkg.Name() + "." + name
		}
		return name + "(" + strings.Join(args, ",") + ")"
	}
	return "?" + v.Name() + ":" + strings.SplitN(v.String(), " ", 2)[0]
}

// callResultTerm: the term(s) of result idx of module function g over the arguments of the call.
func callResultTerm(x *ssa.Call, g *ssa.Function, idx int, env termEnv, seen map[ssa.Value]bool) string {
	var args []string
	for _, a := range x.Call.Args {
		args = append(args, termRec(a, env, seen))
	}
	sub := map[*ssa.Parameter]string{}
	for i, pr := range g.Params {
		if i < len(args) {
			sub[pr] = args[i]
		}
	}
	inner := termEnv{fn: g, subst: sub, depth: env.depth + 1}
	var rs []string
	for _, r := range returnsOf(g) {
		if len(r.Results) > idx {
			rs = append(rs, termRec(r.Results[idx], inner, map[ssa.Value]bool{}))
		}
	}
	sort.Strings(rs)
	var out []string
	for i, s := range rs {
		if i == 0 || s != rs[i-1] {
			out = append(out, s)
		}
	}
	if len(out) == 1 {
		return out[0]
	}
	return "ret{" + strings.Join(out, " | ") + "}"
}
