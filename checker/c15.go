package main

import (
	"fmt"
	"go/token"
	"go/types"
	"regexp"
	"sort"
	"strings"

	"golang.org/x/tools/go/ssa"
)

func init() { register("C15", checkC15) }

var camelRe = regexp.MustCompile(`[A-Z]+[a-z0-9]*|[a-z0-9]+`)

func camelTokens(s string) map[string]bool {
	out := map[string]bool{}
	for _, t := range camelRe.FindAllString(s, -1) {
		out[strings.ToLower(t)] = true
	}
	return out
}

func tokensSubset(a, b map[string]bool) bool {
	for t := range a {
		if !b[t] {
			return false
		}
	}
	return true
}

func isEnvelopeBuilder(callee *ssa.Function) bool {
	r := callee.Signature.Results()
	return r.Len() >= 2 && namedName(r.At(0).Type()) == "Envelope"
}

// publishHandlerView: the handler with the helpers on the way to the enqueue step or to the envelope builder expanded;
// the builder itself and every other callee (duplicate lookup, response writers) stay calls — the rules find them by role.
func publishHandlerView(p *Program, f *ssa.Function) *ssa.Function {
	f = p.Orig(f)
	direct := len(allCalls(f, isBatchEnqueue)) > 0 && len(allCalls(f, func(ci ssa.CallInstruction) bool {
		g := ci.Common().StaticCallee()
		return g != nil && isEnvelopeBuilder(g)
	})) > 0
	if direct {
		return f
	}
	return p.ViewKeeping(f, func(callee *ssa.Function) bool {
		if isEnvelopeBuilder(callee) {
			return true
		}
		if len(allCalls(p.View(callee), isAnyEnqueue)) > 0 {
			return false
		}
		for g := range p.Reach(callee) {
			if g != p.Orig(callee) && isEnvelopeBuilder(g) {
				return false
			}
		}
		return true
	})
}

func publishHandlers(p *Program) []*ssa.Function {
	// the innermost functions of package admin that answer a request (they take the http.ResponseWriter), build the
	// envelopes and hand the batch to the store — each step possibly through unexported helpers of the package. A
	// function that only dispatches to another such function is not a handler, and a helper that performs one of the
	// steps (the enqueue with its error mapping, the preflight) is part of its callers.
	takesWriter := func(f *ssa.Function) bool {
		for _, q := range f.Params {
			if namedName(q.Type()) == "ResponseWriter" && namedPkgPath(q.Type()) == "net/http" {
				return true
			}
		}
		return false
	}
	qual := map[*ssa.Function]bool{}
	var cands []*ssa.Function
	for _, fn := range p.FuncsInPkg("admin") {
		if fn.Parent() != nil || !takesWriter(fn) {
			continue
		}
		if len(allCalls(p.View(fn), isBatchEnqueue)) == 0 {
			continue
		}
		v := publishHandlerView(p, fn)
		hasB := len(allCalls(v, func(ci ssa.CallInstruction) bool {
			g := ci.Common().StaticCallee()
			return g != nil && isEnvelopeBuilder(g)
		})) > 0
		if hasB && len(allCalls(v, isBatchEnqueue)) > 0 {
			qual[p.Orig(fn)] = true
			cands = append(cands, fn)
		}
	}
	var out []*ssa.Function
	for _, f := range cands {
		dispatcher := false
		of := p.Orig(f)
		fns := append([]*ssa.Function{of}, of.AnonFuncs...)
		for _, g := range fns {
			for _, ci := range allCalls(g, nil) {
				if callee := ci.Common().StaticCallee(); callee != nil && unwrapBound(callee) != of && qual[unwrapBound(callee)] {
					dispatcher = true
				}
			}
		}
		if !dispatcher {
			out = append(out, of)
		}
	}
	sort.Slice(out, func(i, j int) bool { return out[i].Pos() < out[j].Pos() })
	return out
}

func checkC15(c *Ctx) {
	p := c.P
	c.Rule("C15.R1", "preflight strictly before enqueue: in both publish handlers no enqueue call lies inside or before the per-item preflight loop, nothing leads from an enqueue back to it, and the duplicate-id lookup dominates every enqueue with its hit/err edges ending the request")
	c.Rule("C15.R2", "the required guards dominate every item added to the prepared batch: after any error response no preparation or enqueue continues; the envelope builder succeeds only behind parsed timestamps, decoded payload within max_body, validated header map and headers within max_headers")
	c.Rule("C15.R3", "atomic path: the type assertion to BatchEnqueuer dominates the batch call, which is made once for the whole prepared list (not in a loop, not on a sub-slice) and the per-item fallback is only on its false edge; both default backends implement BatchEnqueuer; SQLite EnqueueBatch is one transaction and memory EnqueueBatch has no error return after a mutation")
	c.Rule("C15.R4", "shape: the published envelope literal sets State=queued, the resolved route and a single target")
	c.Rule("C15.R5", "policy wiring: each per-route publish hook of the admin server returns exactly the CompiledRoute flag of its name, and each scalar publish-policy field is copied from the compiled policy field of its name")
	c.Rule("C15.R6", "resolves to an allowed target: the value a publish target resolver reports as resolved is an element of the allowed list, or the caller's value on a path that compared it == to an element")
	c.Rule("C15.R7", "the item index of a publish error is an index into the request's item list: every value reaching the error writer's item-index argument is a loop index over the whole list (directly, via an id→index map or a helper), a constant, or a sub-slice index with the lower bound added back")
	c.Rule("C15.R8", "the per-route hooks of the admin server (targets, publish switches, managed info, limits) select the compiled route by the same predicate — sibling agreement, so a name that exists for one exists for all")
	c.Rule("C15.R9", "valid header names/values: the byte classes the header validator accepts, extracted as interval sets from the comparisons that follow each element read, are RFC 7230's tchar for names and non-control bytes (HTAB allowed, DEL not) for values — the classes net/http enforces at delivery")
	checkHeaderByteClasses(c, "C15.R9")
	c.Rule("C15.R10", "publish policy follows a reload: every runtimeState field that start-up derives from the compiled configuration — whatever the per-route publish hooks (switches, targets, limits, managed info) read — is derived again on the reload path (the analysis of C18.R12, claimed here because a route index that only start-up builds makes the publish preflight judge items against the configuration the process started with)")
	checkReloadRederives(c, "C15.R10", reloadEntries(c.P))
	var hs []*ssa.Function
	for _, f := range publishHandlers(p) {
		hs = append(hs, publishHandlerView(p, f))
	}
	c.Floor("C15.R1", "publish_handlers", len(hs), 2)
	var builder *ssa.Function
	for _, fn := range hs {
		name := "admin." + fn.Name()
		enq := allCalls(fn, isAnyEnqueue)
		// the preflight loop: the loop containing the call to the envelope builder
		var buildCall ssa.CallInstruction
		for _, ci := range allCalls(fn, func(ci ssa.CallInstruction) bool {
			f := ci.Common().StaticCallee()
			if f == nil || !IsModuleFunc(f) {
				return false
			}
			r := f.Signature.Results()
			return r.Len() >= 2 && namedName(r.At(0).Type()) == "Envelope"
		}) {
			buildCall = ci
			builder = ci.Common().StaticCallee()
		}
		if buildCall == nil {
			c.Fail("C15.R1", name+":envelope-builder-call", p.Pos(fn.Pos()), "no call to an envelope builder found")
			continue
		}
		h := loopHeaderOf(buildCall.Block())
		if h == nil {
			c.Fail("C15.R1", name+":preflight-loop", p.InstrPos(buildCall), "the envelope builder is not called inside a per-item loop")
			continue
		}
		body := loopBody(h)
		bad := false
		for _, e := range enq {
			if body[e.Block()] {
				bad = true
				c.Fail("C15.R1", name+":enqueue-outside-preflight", p.InstrPos(e), "an enqueue call lies inside the preflight loop (an item can be stored before later items are validated)")
			}
			if !h.Dominates(e.Block()) {
				bad = true
				c.Fail("C15.R1", name+":preflight-dominates-enqueue", p.InstrPos(e), "an enqueue call is reachable without running the preflight loop")
			}
			par := reach(e.Block().Succs, nil, nil)
			if _, back := par[h]; back {
				bad = true
				c.Fail("C15.R1", name+":no-way-back-to-preflight", p.InstrPos(e), "after an enqueue call the handler can return to item validation")
			}
		}
		if !bad {
			c.Ok("C15.R1", name+":preflight-before-enqueue", p.InstrPos(buildCall), fmt.Sprintf("%d enqueue call(s) after the preflight loop, none inside it, no path back", len(enq)))
		}
		// duplicate lookup
		memo := map[*ssa.Function]bool{}
		dups := allCalls(fn, func(ci ssa.CallInstruction) bool {
			f := ci.Common().StaticCallee()
			return f != nil && IsModuleFunc(f) && f.Signature.Results().Len() == 3 && p.FuncReaches(f, func(x ssa.CallInstruction) bool { return isInvokeOf(x, queuePath, "Store", "LookupMessages") }, memo)
		})
		if len(dups) == 0 {
			c.Fail("C15.R1", name+":duplicate-lookup", p.Pos(fn.Pos()), "no lookup of already-stored ids before the enqueue")
		} else {
			okE, failE, _ := GuardEdges(fn, dups, ErrNil)
			// hit edge: index result >= 0
			var hit, miss []Edge
			for _, b := range fn.Blocks {
				for i := range b.Succs {
					a, ok := edgeAtom(Edge{b, i})
					if !ok || !isIntConst(a.Y, 0) {
						continue
					}
					o, idx := origin(a.X)
					for _, d := range dups {
						if dv, isV := d.(ssa.Value); isV && dv == o && idx == 0 {
							if a.Op == token.GEQ {
								hit = append(hit, Edge{b, i})
							}
							if a.Op == token.LSS {
								miss = append(miss, Edge{b, i})
							}
						}
					}
				}
			}
			bad := false
			for _, e := range enq {
				if okp, _ := p.MustPass(fn, e, okE); !okp {
					bad = true
				}
				if okp, _ := p.MustPass(fn, e, miss); !okp || len(miss) == 0 {
					bad = true
				}
				if okn, _ := p.NoPathFrom(append(append([]Edge{}, failE...), hit...), e, nil); !okn {
					bad = true
				}
			}
			c.Check(!bad, "C15.R1", name+":duplicate-lookup-gates-enqueue", p.InstrPos(dups[0]), "enqueue only after the lookup succeeded and found none of the ids", "an enqueue is reachable although the duplicate-id lookup failed, found an id, or was skipped")
		}
		// R2: error responses are terminal
		var prepared ssa.Instruction
		for _, ci := range allCalls(fn, func(ci ssa.CallInstruction) bool {
			bi, ok := ci.Common().Value.(*ssa.Builtin)
			return ok && bi.Name() == "append" && body[ci.Block()]
		}) {
			if strings.Contains(ci.(*ssa.Call).Type().String(), "Envelope") {
				prepared = ci
			}
		}
		if prepared == nil {
			c.Fail("C15.R2", name+":prepared-append", p.Pos(fn.Pos()), "no append to the prepared batch inside the preflight loop")
		} else {
			nErr := 0
			bad := false
			for _, s := range responseSinks(fn) {
				if s.Kind != respHelperErr && s.Kind != respStatusDyn {
					continue
				}
				nErr++
				// within the same iteration an error response must not be followed by the append; and never by an enqueue
				par := reach(s.Instr.Block().Succs, nil, map[*ssa.BasicBlock]bool{h: true})
				if _, r := par[prepared.Block()]; r {
					bad = true
					c.Fail("C15.R2", name+":error-response-is-terminal", p.InstrPos(s.Instr), "after an error response the item can still be added to the batch")
				}
				for _, e := range enq {
					par2 := reach(s.Instr.Block().Succs, nil, nil)
					if _, r := par2[e.Block()]; r {
						bad = true
						c.Fail("C15.R2", name+":error-response-is-terminal", p.InstrPos(s.Instr), "after an error response an enqueue is still reachable")
					}
				}
			}
			c.Count("C15.R2."+fn.Name()+"_error_responses", nErr)
			if !bad && nErr >= 10 {
				c.Ok("C15.R2", name+":error-responses-are-terminal", p.Pos(fn.Pos()), fmt.Sprintf("%d error responses, none followed by preparation or enqueue", nErr))
			} else if !bad {
				c.Fail("C15.R2", name+":error-responses-are-terminal", p.Pos(fn.Pos()), fmt.Sprintf("only %d error responses found in the publish handler (expected >= 10 preflight refusals)", nErr))
			}
			// the envelope is appended only behind the builder's ok edge (code == "")
			var okB []Edge
			for _, b := range fn.Blocks {
				for i := range b.Succs {
					a, ok := edgeAtom(Edge{b, i})
					if !ok || a.Op != token.EQL {
						continue
					}
					if s, isC := constString(a.Y); !isC || s != "" {
						continue
					}
					o, idx := origin(a.X)
					if bv, isV := buildCall.(ssa.Value); isV && o == bv && idx == 1 {
						okB = append(okB, Edge{b, i})
					}
				}
			}
			// switch form: `if code != ""` — the false edge
			okp, path := iterMustPassGeneric(p, fn, h, prepared, okB)
			c.Check(okp && len(okB) > 0, "C15.R2", name+":append-behind-builder-ok", p.InstrPos(prepared), "item appended only when the builder reported no error code", "an item can be appended although the envelope builder reported an error"+pathNote(path))
		}
		// R3
		var assertOK, assertFail []Edge
		for _, b := range fn.Blocks {
			for i := range b.Succs {
				a, ok := edgeAtom(Edge{b, i})
				if !ok || !isBoolTrue(a.Y) {
					continue
				}
				if ex, ok := a.X.(*ssa.Extract); ok && ex.Index == 1 {
					if ta, ok := ex.Tuple.(*ssa.TypeAssert); ok && namedName(ta.AssertedType) == "BatchEnqueuer" {
						if a.Op == token.EQL {
							assertOK = append(assertOK, Edge{b, i})
						} else {
							assertFail = append(assertFail, Edge{b, i})
						}
					}
				}
			}
		}
		okA := len(assertOK) > 0
		for _, e := range enq {
			if isBatchEnqueue(e) {
				if okp, _ := p.MustPass(fn, e, assertOK); !okp {
					okA = false
				}
			} else {
				if okp, _ := p.MustPass(fn, e, assertFail); !okp {
					okA = false
				}
				if okn, _ := p.NoPathFrom(assertOK, e, nil); !okn {
					okA = false
				}
			}
		}
		// one call for the whole batch: the store's all-or-nothing guarantee holds per EnqueueBatch call, so a batch
		// handed over in several calls (a loop over slices of it) keeps the earlier slices when a later one is refused
		for _, e := range enq {
			if !isBatchEnqueue(e) {
				continue
			}
			why := ""
			if h := loopHeaderOf(e.Block()); h != nil {
				why = "the batch call sits in a loop"
			}
			args := e.Common().Args
			if len(args) > 0 {
				if sl, ok := args[len(args)-1].(*ssa.Slice); ok && (sl.Low != nil || sl.High != nil) {
					why = "the batch call is given a sub-slice of the prepared items"
				}
			}
			c.Check(why == "", "C15.R3", name+":whole batch in one store call", p.InstrPos(e), "EnqueueBatch called once, outside any loop, with the whole prepared list",
				why+": the store's all-or-nothing guarantee is per EnqueueBatch call, so when a later part is refused (queue full, duplicate id) the parts already handed over stay enqueued although the request is answered with an error")
		}
		c.Check(okA, "C15.R3", name+":atomic-path-preferred", p.Pos(fn.Pos()), "EnqueueBatch behind the BatchEnqueuer assertion; per-item fallback only when it fails", "the per-item (non-atomic) path can be taken although the store implements BatchEnqueuer, or the batch call is not behind the assertion")
	}
	// backends
	pk := p.Pkg("queue")
	if obj := pk.Types.Scope().Lookup("BatchEnqueuer"); obj != nil {
		it := obj.Type().Underlying().(*types.Interface)
		for _, tn := range []string{"MemoryStore", "SQLiteStore"} {
			c.Check(types.Implements(types.NewPointer(p.Named("queue", tn)), it), "C15.R3", "queue.*"+tn+" implements BatchEnqueuer", "", "atomic batch path available", "*"+tn+" does not implement BatchEnqueuer: publish falls back to the non-atomic path")
		}
	}
	tx := p.Tx()
	sq := p.Func("queue", "(*SQLiteStore).EnqueueBatch")
	c.Check(sq != nil && isTx(tx, p.Orig(sq)), "C15.R3", "sqlite.EnqueueBatch:one-transaction", "", "begin..commit function (typestate decided by C01.R2)", "SQLite EnqueueBatch is not a single transaction function")
	checkFailedOpEffectFree(c, "C15.R3", func(r string) bool { return r == "EnqueueBatch" })

	// builder guards
	if builder != nil {
		checkEnvelopeBuilder(c, "C15.R2", builder)
		checkEnvelopeShape(c, "C15.R4", builder)
	}
	checkPublishPolicyWiring(c, "C15.R5")
	checkResolvedTargetAllowed(c, "C15.R6")
	checkItemIndexFrames(c, "C15.R7")
	checkRouteHookAgreement(c, "C15.R8")
}

// iterMustPassGeneric: within one iteration of the loop with header h, site is reachable only through `through`.
func iterMustPassGeneric(p *Program, fn *ssa.Function, h *ssa.BasicBlock, site ssa.Instruction, through []Edge) (bool, []string) {
	av := EdgeSet{}
	av.addAll(through)
	var starts []*ssa.BasicBlock
	body := loopBody(h)
	for i, s := range h.Succs {
		if !av[Edge{h, i}] && body[s] {
			starts = append(starts, s)
		}
	}
	par := reach(starts, av, map[*ssa.BasicBlock]bool{h: true})
	if _, ok := par[site.Block()]; ok {
		return false, p.blockPath(par, site.Block())
	}
	return true, nil
}

func checkEnvelopeBuilder(c *Ctx, rule string, fn *ssa.Function) {
	p := c.P
	name := "admin." + fn.Name()
	one := func(pred func(ssa.CallInstruction) bool, oc Outcome) ([]Edge, int) {
		calls := allCalls(fn, pred)
		ok, _, _ := GuardEdges(fn, calls, oc)
		return ok, len(calls)
	}
	type guard struct {
		name  string
		edges []Edge
	}
	var guards []guard
	// timestamps: calls to a (string) (time.Time, bool) parser
	timeCalls := allCalls(fn, func(ci ssa.CallInstruction) bool {
		f := ci.Common().StaticCallee()
		if f == nil || !IsModuleFunc(f) {
			return false
		}
		r := f.Signature.Results()
		return r.Len() == 2 && isTimeTime(r.At(0).Type()) && types.Identical(r.At(1).Type(), types.Typ[types.Bool])
	})
	for i, tc := range timeCalls {
		ok, _, _ := GuardEdges(fn, []ssa.CallInstruction{tc}, BoolTrue)
		guards = append(guards, guard{fmt.Sprintf("timestamp#%d-parsed", i+1), ok})
	}
	c.Check(len(timeCalls) >= 2, rule, name+":timestamp-parsers", p.Pos(fn.Pos()), fmt.Sprintf("%d timestamp parse calls", len(timeCalls)), "received_at / next_run_at are not both parsed")
	decOK, nDec := one(func(ci ssa.CallInstruction) bool { return calleeIs(ci, "encoding/base64", "Encoding", "DecodeString") }, ErrNil)
	// payload empty edge bypasses decoding legitimately
	var emptyPayload []Edge
	for _, b := range fn.Blocks {
		for i := range b.Succs {
			a, ok := edgeAtom(Edge{b, i})
			if ok && a.Op == token.EQL {
				if s, isC := constString(a.Y); isC && s == "" && valueMentionsField(a.X, "PayloadB64", 0) {
					emptyPayload = append(emptyPayload, Edge{b, i})
				}
			}
		}
	}
	c.Check(nDec >= 1, rule, name+":payload-decoded", p.Pos(fn.Pos()), "payload_b64 decoded with base64.StdEncoding", "payload is not base64-decoded")
	guards = append(guards, guard{"payload-decoded-or-empty", append(append([]Edge{}, decOK...), emptyPayload...)})
	var sizeOK, hdrOK []Edge
	for _, b := range fn.Blocks {
		for i := range b.Succs {
			a, ok := edgeAtom(Edge{b, i})
			if !ok || a.Op != token.LEQ {
				continue
			}
			if prm, isP := a.Y.(*ssa.Parameter); isP || isPhiOfParam(a.Y) {
				_ = prm
				if lenArgDeep(a.X) != nil {
					sizeOK = append(sizeOK, Edge{b, i})
				} else {
					hdrOK = append(hdrOK, Edge{b, i})
				}
			}
		}
	}
	guards = append(guards, guard{"payload-within-max_body-or-empty", append(append([]Edge{}, sizeOK...), emptyPayload...)})
	guards = append(guards, guard{"headers-within-max_headers", hdrOK})
	// what is measured against max_headers is the size of the headers as they are stored: a sum of len(name) and
	// len(value) over the header map itself, not over trimmed or otherwise transformed copies
	nMeasured := 0
	for _, e := range hdrOK {
		a, _ := edgeAtom(e)
		var lens []*ssa.Call
		seenV := map[ssa.Value]bool{}
		var walk func(v ssa.Value, d int)
		walk = func(v ssa.Value, d int) {
			if v == nil || d > 14 || seenV[v] {
				return
			}
			seenV[v] = true
			switch x := v.(type) {
			case *ssa.BinOp:
				walk(x.X, d+1)
				walk(x.Y, d+1)
			case *ssa.Phi:
				for _, ed := range x.Edges {
					walk(ed, d+1)
				}
			case *ssa.Convert:
				walk(x.X, d+1)
			case *ssa.ChangeType:
				walk(x.X, d+1)
			case *ssa.Call:
				if builtinCall(x, "len") != nil {
					lens = append(lens, x)
					return
				}
				if f := x.Call.StaticCallee(); f != nil && IsModuleFunc(f) && len(f.Blocks) > 0 {
					// a size helper that was not expanded: its returned sums
					for _, r := range returnsOf(p.View(f)) {
						for _, res := range r.Results {
							walk(res, d+1)
						}
					}
				}
			}
		}
		walk(a.X, 0)
		for _, lc := range lens {
			nMeasured++
			arg := stripConv(lc.Call.Args[0])
			raw := false
			if ex, ok := arg.(*ssa.Extract); ok {
				if _, isNext := ex.Tuple.(*ssa.Next); isNext {
					raw = true
				}
			}
			c.Check(raw, rule, fmt.Sprintf("%s:header size term #%d measures the stored bytes", name, nMeasured), p.InstrPos(lc),
				"len() of the header map's own key/value",
				"the size compared with max_headers counts "+shortVal(arg)+", not the header name/value as stored: padding that the measure drops is stored and delivered, so a message exceeding max_headers is accepted")
		}
	}
	c.Check(nMeasured >= 2, rule, name+":header size is a sum over names and values", p.Pos(fn.Pos()), fmt.Sprintf("%d len() terms", nMeasured), "the value compared with max_headers is not a sum of len(name)+len(value) over the header map")
	valOK, nVal := one(func(ci ssa.CallInstruction) bool {
		f := ci.Common().StaticCallee()
		return f != nil && f.Pkg != nil && strings.HasSuffix(f.Pkg.Pkg.Path(), "/internal/httpheader")
	}, ErrNil)
	c.Check(nVal >= 1, rule, name+":headers-validated", p.Pos(fn.Pos()), "header map validated by package httpheader", "the header map is not validated")
	guards = append(guards, guard{"header-map-valid", valOK})
	nOK := 0
	for _, r := range returnsOf(fn) {
		if len(r.Results) < 2 {
			continue
		}
		if s, isC := constString(r.Results[1]); !isC || s != "" {
			continue
		}
		nOK++
		for _, g := range guards {
			okp, path := p.MustPass(fn, r, g.edges)
			key := fmt.Sprintf("%s:success#%d:%s", name, nOK, g.name)
			if okp && len(g.edges) > 0 {
				c.Ok(rule, key, p.InstrPos(r), "success return only behind this guard")
			} else {
				c.Fail(rule, key, p.InstrPos(r), "the builder can succeed without the guard "+g.name, path...)
			}
		}
	}
	c.Check(nOK >= 1, rule, name+":success-returns", p.Pos(fn.Pos()), fmt.Sprintf("%d success return(s)", nOK), "no success return found in the envelope builder")
}

func isPhiOfParam(v ssa.Value) bool {
	phi, ok := v.(*ssa.Phi)
	if !ok {
		return false
	}
	for _, e := range phi.Edges {
		if _, ok := e.(*ssa.Parameter); ok {
			return true
		}
	}
	return false
}

func lenArgDeep(v ssa.Value) ssa.Value {
	for i := 0; i < 4; i++ {
		if l := lenArg(v); l != nil {
			return l
		}
		switch x := v.(type) {
		case *ssa.Convert:
			v = x.X
		case *ssa.ChangeType:
			v = x.X
		default:
			return nil
		}
	}
	return nil
}

func checkEnvelopeShape(c *Ctx, rule string, fn *ssa.Function) {
	p := c.P
	name := "admin." + fn.Name()
	nLit := 0
	for _, b := range fn.Blocks {
		for _, ins := range b.Instrs {
			a, ok := ins.(*ssa.Alloc)
			if !ok || namedName(a.Type().(*types.Pointer).Elem()) != "Envelope" {
				continue
			}
			fs := structFieldStores(a)
			if len(fs) < 4 {
				continue
			}
			nLit++
			st, _ := constState(fs["State"])
			c.Check(st == ssParse("queued"), rule, name+":State=queued", p.InstrPos(a), "State: queued", "published envelopes are not created in state queued")
			okR := false
			if prm, ok := fs["Route"].(*ssa.Parameter); ok && strings.Contains(strings.ToLower(prm.Name()), "route") {
				okR = true
			}
			okT := false
			if prm, ok := fs["Target"].(*ssa.Parameter); ok && strings.Contains(strings.ToLower(prm.Name()), "target") {
				okT = true
			}
			c.Check(okR && okT, rule, name+":route-and-single-target", p.InstrPos(a), "Route and Target = the resolved route/target parameters", "route/target of the envelope are not the resolved values passed by the handler")
		}
	}
	c.Floor(rule, "envelope_literals", nLit, 1)
}

func checkPublishPolicyWiring(c *Ctx, rule string) {
	p := c.P
	w := p.wiringTable()
	// per-route hooks
	routeT := p.Named("config", "CompiledRoute")
	var routeFlags []string
	if routeT != nil {
		st := routeT.Underlying().(*types.Struct)
		for i := 0; i < st.NumFields(); i++ {
			if strings.HasPrefix(st.Field(i).Name(), "Publish") && types.Identical(st.Field(i).Type(), types.Typ[types.Bool]) {
				routeFlags = append(routeFlags, st.Field(i).Name())
			}
		}
	}
	n := 0
	for k, ts := range w {
		if k.typ != "admin.Server" || !strings.HasPrefix(k.field, "Publish") || !strings.HasSuffix(k.field, "ForRoute") {
			continue
		}
		n++
		hookTok := camelTokens(k.field)
		// the flag of this hook = the route flag with the most tokens whose tokens ⊆ the hook's
		want := ""
		for _, f := range routeFlags {
			if tokensSubset(camelTokens(f), hookTok) && len(camelTokens(f)) > len(camelTokens(want)) {
				want = f
			}
		}
		for _, t := range ts {
			read := map[string]bool{}
			scope := []*ssa.Function{t}
			scope = append(scope, allAnon(t)...) // flags read in closures handed to a shared lookup helper
			for _, g := range scope {
				for _, b := range g.Blocks {
					for _, ins := range b.Instrs {
						if v, ok := ins.(ssa.Value); ok {
							if tn, f, ok := fieldOfLoadOrField(v); ok && tn == "CompiledRoute" && strings.HasPrefix(f, "Publish") {
								read[f] = true
							}
							if fl, ok := v.(*ssa.Field); ok && namedName(fl.X.Type()) == "CompiledRoute" {
								fname := fl.X.Type().Underlying().(*types.Struct).Field(fl.Field).Name()
								if strings.HasPrefix(fname, "Publish") {
									read[fname] = true
								}
							}
						}
					}
				}
			}
			var rs []string
			for f := range read {
				rs = append(rs, f)
			}
			sort.Strings(rs)
			okFlags := want != "" && read[want]
			for _, f := range rs {
				if !tokensSubset(camelTokens(f), camelTokens(want)) {
					okFlags = false // a flag of a different publish path decides this hook
				}
			}
			c.Check(okFlags, rule, "admin.Server."+k.field+"<-CompiledRoute."+want, p.Pos(t.Pos()), "hook decides by the route's "+want+" flag", fmt.Sprintf("hook %s is wired to %s which reads route flag(s) %v; it must decide by %s (and at most more general flags)", k.field, t.Name(), rs, want))
		}
	}
	c.Floor(rule, "per_route_publish_hooks", n, 3)
	// scalar policy fields: stores adminH.PublishX = compiled…PublishPolicy.Y
	nS := 0
	for _, fn := range p.FuncsInPkg("app") {
		for _, b := range fn.Blocks {
			for _, ins := range b.Instrs {
				st, ok := ins.(*ssa.Store)
				if !ok {
					continue
				}
				fa, ok := st.Addr.(*ssa.FieldAddr)
				if !ok || qualTypeName(fa.X.Type()) != "admin.Server" {
					continue
				}
				_, af, _ := fieldAddrName(fa)
				if !strings.HasPrefix(af, "Publish") {
					continue
				}
				src := ""
				for _, s := range sourcesOf(st.Val) {
					if s.Kind == "field" && strings.HasPrefix(s.Desc, "PublishPolicyConfig.") || s.Kind == "field" && strings.Contains(s.Desc, "PublishPolicy") {
						src = s.Desc
					}
				}
				if src == "" {
					if sym, ok := symOf(st.Val); ok && strings.Contains(sym, ".PublishPolicy.") {
						src = sym[strings.Index(sym, ".PublishPolicy.")+len(".PublishPolicy."):]
					}
				}
				if src == "" {
					continue
				}
				nS++
				pf := src
				if i := strings.LastIndex(pf, "."); i >= 0 {
					pf = pf[i+1:]
				}
				pf = strings.Fields(pf)[0]
				c.Check(tokensSubset(camelTokens(pf), camelTokens(af)), rule, "admin.Server."+af+"<-PublishPolicy."+pf, p.InstrPos(st), "policy field copied to the admin field of its name", fmt.Sprintf("admin field %s is set from compiled policy field %s (names do not correspond)", af, pf))
			}
		}
	}
	c.Floor(rule, "scalar_policy_fields", nS, 5)
}

func fieldOfLoadOrField(v ssa.Value) (string, string, bool) {
	if tn, f, ok := fieldOfLoad(v); ok {
		return tn, f, true
	}
	return "", "", false
}
