package main

// Value provenance on SSA: where can the bytes/strings of a value come from,
// looking through local cells, struct cells, phis and value-preserving wrappers.

import (
	"go/token"
	"go/types"
	"sort"
	"strings"

	"golang.org/x/tools/go/ssa"
)

type vsource struct {
	Kind string // call | param | field | const | makeslice | transform | unknown
	Desc string
	Val  ssa.Value
}

func sourcesOf(v ssa.Value) []vsource {
	seen := map[ssa.Value]bool{}
	var out []vsource
	var rec func(v ssa.Value, depth int)
	add := func(k, d string, v ssa.Value) { out = append(out, vsource{k, d, v}) }
	rec = func(v ssa.Value, depth int) {
		if v == nil || seen[v] {
			return
		}
		seen[v] = true
		if depth > 30 {
			add("unknown", "depth", v)
			return
		}
		switch x := v.(type) {
		case *ssa.Const:
			add("const", x.String(), v)
		case *ssa.Parameter:
			add("param", x.Name(), v)
		case *ssa.FreeVar:
			add("param", "free:"+x.Name(), v)
		case *ssa.ChangeType:
			rec(x.X, depth+1)
		case *ssa.ChangeInterface:
			rec(x.X, depth+1)
		case *ssa.MakeInterface:
			rec(x.X, depth+1)
		case *ssa.Phi:
			for _, e := range x.Edges {
				rec(e, depth+1)
			}
		case *ssa.Extract:
			if c, ok := x.Tuple.(*ssa.Call); ok {
				add("call", callDesc(c)+"#"+itoa(x.Index), c)
			} else {
				rec(x.Tuple, depth+1)
			}
		case *ssa.Call:
			if bi, ok := x.Call.Value.(*ssa.Builtin); ok && bi.Name() == "append" {
				add("transform", "append", v)
				return
			}
			add("call", callDesc(x)+"#0", v)
		case *ssa.MakeSlice:
			add("makeslice", "make", v)
		case *ssa.Slice:
			if x.Low == nil && x.High == nil {
				if al, ok := x.X.(*ssa.Alloc); ok {
					if arr, ok := al.Type().(*types.Pointer).Elem().Underlying().(*types.Array); ok {
						add("const", "array-literal["+itoa(int(arr.Len()))+"]", v)
						return
					}
				}
				rec(x.X, depth+1)
				return
			}
			add("transform", "reslice", v)
		case *ssa.Convert:
			add("transform", "convert "+x.Type().String(), v)
		case *ssa.Field:
			st := x.X.Type().Underlying().(*types.Struct)
			add("field", namedName(x.X.Type())+"."+st.Field(x.Field).Name(), v)
		case *ssa.UnOp:
			if x.Op != token.MUL {
				add("unknown", x.String(), v)
				return
			}
			switch a := x.X.(type) {
			case *ssa.Alloc:
				n := 0
				for _, ref := range *a.Referrers() {
					if st, ok := ref.(*ssa.Store); ok && st.Addr == a {
						n++
						rec(st.Val, depth+1)
					}
				}
				if n == 0 {
					add("const", "zero-value", v)
				}
			case *ssa.FieldAddr:
				tn, f, _ := fieldAddrName(a)
				if al, ok := a.X.(*ssa.Alloc); ok {
					// field of a local struct cell: stores to that field, or whole-struct stores (followed through
					// copies of the struct from one cell to another, as a by-value parameter of an expanded helper is)
					n := 0
					var cell func(al *ssa.Alloc, d int)
					cell = func(al *ssa.Alloc, d int) {
						for _, ref := range *al.Referrers() {
							switch r := ref.(type) {
							case *ssa.FieldAddr:
								if r.Field == a.Field {
									for _, r2 := range *r.Referrers() {
										if st, ok := r2.(*ssa.Store); ok && st.Addr == r {
											n++
											rec(st.Val, depth+1)
										}
									}
								}
							case *ssa.Store:
								if r.Addr == al {
									n++
									if u, ok := r.Val.(*ssa.UnOp); ok && u.Op == token.MUL && d < 4 {
										if src, ok := u.X.(*ssa.Alloc); ok && src != al {
											cell(src, d+1)
											continue
										}
									}
									// whole struct stored: the field of that value
									add("field", tn+"."+f+" of "+shortVal(r.Val), r.Val)
								}
							}
						}
					}
					cell(al, 0)
					if n == 0 {
						add("const", "zero-value", v)
					}
					return
				}
				add("field", tn+"."+f, v)
			case *ssa.IndexAddr:
				add("field", "element of "+a.X.Type().String(), v)
			case *ssa.Global:
				add("field", "global "+a.Name(), v)
			default:
				add("unknown", x.String(), v)
			}
		default:
			add("unknown", v.String(), v)
		}
	}
	rec(v, 0)
	sort.Slice(out, func(i, j int) bool { return out[i].Kind+out[i].Desc < out[j].Kind+out[j].Desc })
	return out
}

func callDesc(c *ssa.Call) string {
	if c.Call.IsInvoke() {
		return namedName(c.Call.Value.Type()) + "." + c.Call.Method.Name()
	}
	if f := c.Call.StaticCallee(); f != nil {
		s := f.String()
		s = strings.ReplaceAll(s, modPath+"/internal/", "")
		return s
	}
	return "dynamic"
}

func shortVal(v ssa.Value) string {
	switch x := v.(type) {
	case *ssa.Parameter:
		return "param " + x.Name()
	case *ssa.UnOp:
		return "*" + x.X.Name()
	}
	return v.Name()
}

func itoa(i int) string {
	if i == 0 {
		return "0"
	}
	neg := i < 0
	if neg {
		i = -i
	}
	var b []byte
	for i > 0 {
		b = append([]byte{byte('0' + i%10)}, b...)
		i /= 10
	}
	if neg {
		b = append([]byte{'-'}, b...)
	}
	return string(b)
}

func sourcesString(ss []vsource) string {
	var out []string
	for _, s := range ss {
		out = append(out, s.Kind+":"+s.Desc)
	}
	return strings.Join(dedup(out), ", ")
}

// allSourcesMatch: every source satisfies pred.
func allSourcesMatch(ss []vsource, pred func(vsource) bool) bool {
	if len(ss) == 0 {
		return false
	}
	for _, s := range ss {
		if !pred(s) {
			return false
		}
	}
	return true
}

// fieldStores: stores to field `field` of struct type `typ` inside fn (any base pointer).
func fieldStores(fn *ssa.Function, typ, field string) []*ssa.Store {
	var out []*ssa.Store
	for _, b := range fn.Blocks {
		for _, ins := range b.Instrs {
			if st, ok := ins.(*ssa.Store); ok {
				if fa, ok := st.Addr.(*ssa.FieldAddr); ok {
					if tn, f, _ := fieldAddrName(fa); tn == typ && f == field {
						out = append(out, st)
					}
				}
			}
		}
	}
	return out
}

// sourcesThroughWrappers expands sources that are results of module functions by the sources
// of the value those functions return (so a thin helper around a call is transparent).
func (p *Program) sourcesThroughWrappers(v ssa.Value, depth int) []vsource {
	var out []vsource
	for _, s := range sourcesOf(v) {
		if s.Kind == "call" && depth < 4 && !strings.Contains(s.Desc, "secrets.") {
			if call, ok := s.Val.(*ssa.Call); ok {
				if f := call.Call.StaticCallee(); f != nil && IsModuleFunc(f) && len(f.Blocks) > 0 {
					idx := 0
					if i := strings.LastIndex(s.Desc, "#"); i >= 0 {
						for _, ch := range s.Desc[i+1:] {
							idx = idx*10 + int(ch-'0')
						}
					}
					expanded := false
					for _, r := range returnsOf(f) {
						if idx < len(r.Results) {
							if isNilConst(r.Results[idx]) {
								expanded = true
								continue // error paths return nil
							}
							out = append(out, p.sourcesThroughWrappers(r.Results[idx], depth+1)...)
							expanded = true
						}
					}
					if expanded {
						continue
					}
				}
			}
		}
		out = append(out, s)
	}
	return out
}
