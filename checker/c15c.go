package main

import (
	"fmt"
	"go/token"
	"go/types"

	"golang.org/x/tools/go/ssa"
)

// C15.R7 — the item index in a publish error is an index into the request's item list.
//
// "Returns a structured error naming the first offending item": the number written as item_index comes from a
// loop index over the items (directly, through an id→index map, or through a helper). If a helper works on a
// sub-slice items[lo:…] its indices are relative to lo; reporting them unchanged names a different, valid item.
// The rule follows every value that reaches the item-index argument of the publish error writer and classifies
// the frame it is relative to: the full list (ok), a constant such as -1 (ok), or a sub-slice with a non-zero lower
// bound whose bound was not added back (violation).

type idxFrame struct {
	kind string // "full" | "const" | "sub" | "param" | "none"
	why  string
	par  *ssa.Parameter
	lo   ssa.Value
}

func joinFrames(fs ...idxFrame) idxFrame {
	out := idxFrame{kind: "none"}
	for _, f := range fs {
		switch f.kind {
		case "sub":
			return f
		case "param":
			out = f
		case "full":
			if out.kind != "param" {
				out = f
			}
		case "const":
			if out.kind == "none" {
				out = f
			}
		}
	}
	return out
}

// rangeIndexSlice: if v is the index of a `for i := range S` loop, returns S.
func rangeIndexSlice(v ssa.Value) (ssa.Value, bool) {
	bo, ok := v.(*ssa.BinOp)
	if !ok || bo.Op != token.ADD || !isIntConst(bo.Y, 1) {
		return nil, false
	}
	phi, ok := bo.X.(*ssa.Phi)
	if !ok {
		return nil, false
	}
	init := false
	for _, e := range phi.Edges {
		if isIntConst(e, -1) {
			init = true
		}
	}
	if !init {
		return nil, false
	}
	// the bound: v < len(S)
	for _, ref := range *bo.Referrers() {
		if cmp, ok := ref.(*ssa.BinOp); ok && cmp.Op == token.LSS && cmp.X == bo {
			if call, ok := cmp.Y.(*ssa.Call); ok {
				if bi, ok := call.Call.Value.(*ssa.Builtin); ok && bi.Name() == "len" {
					return call.Call.Args[0], true
				}
			}
		}
	}
	return nil, false
}

func (p *Program) frameOfSlice(s ssa.Value, fn *ssa.Function) idxFrame {
	return p.frameOfSliceRec(s, fn, map[ssa.Value]bool{})
}

func (p *Program) frameOfSliceRec(s ssa.Value, fn *ssa.Function, seen map[ssa.Value]bool) idxFrame {
	if s == nil || seen[s] {
		return idxFrame{kind: "none"}
	}
	seen[s] = true
	switch x := s.(type) {
	case *ssa.Parameter:
		return idxFrame{kind: "param", par: x}
	case *ssa.Slice:
		if x.Low != nil && !isIntConst(x.Low, 0) {
			return idxFrame{kind: "sub", why: "a sub-slice " + shortVal(x.X) + "[" + shortVal(x.Low) + ":…] at " + p.InstrPos(x), lo: x.Low}
		}
		return p.frameOfSliceRec(x.X, fn, seen)
	case *ssa.UnOp:
		if al, ok := x.X.(*ssa.Alloc); ok {
			var fs []idxFrame
			for _, ref := range *al.Referrers() {
				if st, ok := ref.(*ssa.Store); ok && st.Addr == al {
					fs = append(fs, p.frameOfSliceRec(st.Val, fn, seen))
				}
			}
			return joinFrames(fs...)
		}
	case *ssa.Phi:
		var fs []idxFrame
		for _, e := range x.Edges {
			fs = append(fs, p.frameOfSliceRec(e, fn, seen))
		}
		return joinFrames(fs...)
	}
	return idxFrame{kind: "full"}
}

func (p *Program) indexFrame(v ssa.Value, fn *ssa.Function, depth int, seen map[ssa.Value]bool) idxFrame {
	if v == nil || seen[v] || depth > 10 {
		return idxFrame{kind: "none"}
	}
	seen[v] = true
	switch x := v.(type) {
	case *ssa.Const:
		return idxFrame{kind: "const"}
	case *ssa.Parameter:
		return idxFrame{kind: "none"}
	case *ssa.Phi:
		var fs []idxFrame
		for _, e := range x.Edges {
			fs = append(fs, p.indexFrame(e, fn, depth+1, seen))
		}
		return joinFrames(fs...)
	case *ssa.Convert:
		return p.indexFrame(x.X, fn, depth+1, seen)
	case *ssa.Extract:
		if call, ok := x.Tuple.(*ssa.Call); ok {
			return p.callIndexFrame(call, x.Index, fn, depth, seen)
		}
		if lk, ok := x.Tuple.(*ssa.Lookup); ok && x.Index == 0 {
			return p.indexFrame(lk, fn, depth+1, seen)
		}
		return idxFrame{kind: "none"}
	case *ssa.Call:
		return p.callIndexFrame(x, 0, fn, depth, seen)
	case *ssa.Lookup:
		// values stored into the map
		var fs []idxFrame
		for _, b := range fn.Blocks {
			for _, ins := range b.Instrs {
				if mu, ok := ins.(*ssa.MapUpdate); ok && sameOriginLoad(mu.Map, x.X) || ok && mu.Map == x.X {
					fs = append(fs, p.indexFrame(mu.Value, fn, depth+1, seen))
				}
			}
		}
		return joinFrames(fs...)
	case *ssa.UnOp:
		if al, ok := x.X.(*ssa.Alloc); ok {
			var fs []idxFrame
			for _, ref := range *al.Referrers() {
				if st, ok := ref.(*ssa.Store); ok && st.Addr == al {
					fs = append(fs, p.indexFrame(st.Val, fn, depth+1, seen))
				}
			}
			return joinFrames(fs...)
		}
		if fa, ok := x.X.(*ssa.FieldAddr); ok {
			// a field holding an item index (e.g. parse error's ItemIndex): stores to that field anywhere in the package
			tn, f, _ := fieldAddrName(fa)
			var fs []idxFrame
			for _, g := range p.FuncsInPkg("admin") {
				for _, st := range fieldStores(g, tn, f) {
					fs = append(fs, p.indexFrame(st.Val, g, depth+1, map[ssa.Value]bool{}))
				}
			}
			return joinFrames(fs...)
		}
	case *ssa.BinOp:
		if s, ok := rangeIndexSlice(x); ok {
			return p.frameOfSlice(s, fn)
		}
		if x.Op == token.ADD {
			fx, fy := p.indexFrame(x.X, fn, depth+1, seen), p.indexFrame(x.Y, fn, depth+1, seen)
			if fx.kind == "sub" && (fx.lo == x.Y || sameOriginLoad(fx.lo, x.Y)) {
				return idxFrame{kind: "full"}
			}
			if fy.kind == "sub" && (fy.lo == x.X || sameOriginLoad(fy.lo, x.X)) {
				return idxFrame{kind: "full"}
			}
			return joinFrames(fx, fy)
		}
	}
	return idxFrame{kind: "none"}
}

func (p *Program) callIndexFrame(call *ssa.Call, idx int, fn *ssa.Function, depth int, seen map[ssa.Value]bool) idxFrame {
	g := call.Call.StaticCallee()
	if g == nil || !IsModuleFunc(g) || len(g.Blocks) == 0 {
		return idxFrame{kind: "none"}
	}
	if idx >= g.Signature.Results().Len() {
		return idxFrame{kind: "none"}
	}
	if b, ok := g.Signature.Results().At(idx).Type().Underlying().(*types.Basic); !ok || b.Info()&types.IsInteger == 0 {
		return idxFrame{kind: "none"}
	}
	var fs []idxFrame
	for _, r := range returnsOf(g) {
		if idx < len(r.Results) {
			f := p.indexFrame(r.Results[idx], g, depth+1, map[ssa.Value]bool{})
			if f.kind == "param" {
				// map to the argument at the call site
				for i, pr := range g.Params {
					if pr == f.par && i < len(call.Call.Args) {
						f = p.frameOfSlice(call.Call.Args[i], fn)
					}
				}
			}
			if f.kind == "sub" && f.why != "" {
				f.why += " (index returned by " + g.Name() + ")"
			}
			fs = append(fs, f)
		}
	}
	return joinFrames(fs...)
}

func checkItemIndexFrames(c *Ctx, rule string) {
	p := c.P
	// the writer: Server method in admin with an int parameter and a bool, called with constants 4xx/5xx — found as the
	// method whose int parameter named in the JSON body as item_index; structurally: (w, status int, code, detail string, itemIndex int, scoped bool)
	var writer *ssa.Function
	argPos := -1
	for _, fn := range p.MethodsOf("admin", "Server") {
		ps := fn.Signature.Params()
		if ps.Len() != 6 {
			continue
		}
		if isResponseWriter(ps.At(0).Type()) && isStringT(ps.At(2).Type()) && isStringT(ps.At(3).Type()) {
			if b, ok := ps.At(4).Type().Underlying().(*types.Basic); ok && b.Kind() == types.Int {
				writer, argPos = fn, 5 // + receiver
			}
		}
	}
	if writer == nil {
		c.Undecided(rule, "admin:publish error writer", "", "no Server method (w, status, code, detail string, itemIndex int, scoped bool) found")
		return
	}
	n, nIdx := 0, 0
	perFn := map[*ssa.Function]int{}
	for _, cs := range p.CallSitesOf(writer) {
		if argPos >= len(cs.Common().Args) {
			continue
		}
		n++
		arg := cs.Common().Args[argPos]
		f := p.indexFrame(arg, cs.Parent(), 0, map[ssa.Value]bool{})
		if f.kind == "const" || f.kind == "none" {
			continue
		}
		nIdx++
		perFn[cs.Parent()]++
		construct := fmt.Sprintf("%s:computed item index #%d is relative to the whole item list", FuncName(cs.Parent()), perFn[cs.Parent()])
		c.Check(f.kind != "sub", rule, construct, p.InstrPos(cs),
			"index of the full list ("+f.kind+")",
			"the item_index written here can be relative to "+f.why+" whose lower bound is not added back: the error names a different (valid) item than the offending one")
	}
	c.Count("publish error sites", n)
	c.Floor(rule, "publish error sites", n, 20)
	c.Floor(rule, "publish error sites with a computed item index", nIdx, 10)
}
