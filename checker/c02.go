package main

import (
	"fmt"
	"go/token"
	"go/types"
	"sort"
	"strings"

	"golang.org/x/tools/go/ssa"
)

func init() { register("C02", checkC02) }

func checkC02(c *Ctx) {
	c.Rule("C02.R1", "memory: every store to an item's State and every delete/insert on the item table, with its branch-refined from-set, is an edge of the documented machine owned by the entry operation it is reachable from")
	c.Rule("C02.R2", "sqlite/postgres: every INSERT/UPDATE/DELETE on queue_items classifies as an edge of the documented machine for the Store method(s) that reach it; statements without a state conjunct only inside a transaction")
	c.Rule("C02.R3", "identity immutability: UPDATE SET lists ⊆ lifecycle columns; no store to Envelope id/route/target/payload/headers/trace through a stored item")
	c.Rule("C02.R4", "memory: no path from a (non-maintenance, non-expiry) mutation of the item table to an error return; SQL: at most one autocommit mutation per path outside transactions")
	c.Rule("C02.R5", "memory: every access to a mutable MemoryStore field happens with the store mutex held (helpers inherit the lockset of all call sites)")
	c.Rule("C02.R6", "from-set of the by-id settle statements: SQL statements that change state keyed only by item id (C02.R2 accepts them inside a transaction) draw their ids from a lease lookup whose state = 'leased' and not-expired tests dominate every accept point, so their from-set is {leased} (same analysis as C04.R1, claimed here because the legality of those edges depends on it)")
	checkTransitionTable(c, "C02.R1", "memory", nil)
	checkTransitionTable(c, "C02.R2", "sqlite", nil)
	checkTransitionTable(c, "C02.R2", "postgres", nil)
	checkIdentityImmutable(c, "C02.R3")
	checkFailedOpEffectFree(c, "C02.R4", nil)
	checkMemoryLocking(c, "C02.R5")
	checkSQLFencing(c, "C02.R6")
	c.Rule("C02.R7", "per-row state in scan loops is per-iteration: in every loop calling rows.Scan, a local cell allocated outside the loop that is not an accumulator (not read after the loop) is definitely assigned, field by field, before each read in the same iteration — so no row's verdict (expired, state, id) carries over to the next row")
	checkScanLoopRowState(c, "C02.R7")
	c.Rule("C02.R8", "a delivered/dead/canceled message is stamped alike in both backends (the analysis of C13.R10): retention eligibility is measured from that stamp, so a message is pruned only when the configured window since the terminal transition has passed")
	c.Rule("C02.R9", "a drop_oldest eviction takes one message per counted eviction: the one-at-a-time SQL evictor's DELETE is keyed by a single id (id = ? / id = (SELECT … LIMIT 1)), so a message disappears only in exchange for one that is stored")
	c.Rule("C02.R10", "leased→queued only by nack or lease expiry: the only construct that takes a lease away without the holder's lease id is the sweep, whose statement tests state='leased' and lease_until <= now (memory: the LeaseUntil expiry edge) — the analysis of C03.R5, claimed here for the transition clause")
	checkSweepGuard(c, "C02.R10")
	checkEvictionSingleRow(c, "C02.R9", nil)
	checkTerminalTimeParity(c, "C02.R8")
}

func transOf(p *Program, backend string) []Trans {
	if backend == "memory" {
		return p.memoryTransitions()
	}
	return p.sqlTransitions(backend)
}

// checkTransitionTable checks every transition construct of a backend against
// the machine. filter (optional) restricts to some roots.
func checkTransitionTable(c *Ctx, rule, backend string, filter func(Trans) bool) {
	p := c.P
	ts := transOf(p, backend)
	m := p.Tx()
	n := 0
	for _, t := range ts {
		if filter != nil && !filter(t) {
			continue
		}
		n++
		if t.Undecided != "" {
			c.Undecided(rule, t.Key, t.Pos, t.Undecided)
			continue
		}
		if t.Root == "?" {
			c.Fail(rule, t.Key, t.Pos, "mutation statement on queue_items is not reachable from any exported Store method (unattributed)")
			continue
		}
		if backend != "memory" && !t.HasFrom && t.Kind != "insert" {
			// no state conjunct: only by-id settle statements inside a transaction
			in, why := siteInsideTx(p, m, t.Stmt.Fn, t.Stmt.Site.call.Lparen, 0)
			idOnly := false
			for _, w := range t.Stmt.St.where {
				lw := strings.ToLower(w)
				if strings.HasPrefix(lw, "id in") || strings.HasPrefix(lw, "id =") {
					idOnly = true
				}
			}
			legalTarget := t.Kind == "delete" || t.To == "queued" || t.To == "delivered" || t.To == "dead"
			if in && idOnly && legalTarget {
				c.Ok(rule, t.Key, t.Pos, fmt.Sprintf("by-id settle statement without state conjunct, inside a transaction (%s); the id filter is decided by C02.R6", why))
			} else {
				c.Fail(rule, t.Key, t.Pos, fmt.Sprintf("%s to %q without a state guard in its WHERE and not (by-id inside a transaction): %s", t.Kind, t.To, why))
			}
			continue
		}
		if name, ok := matchTransition(t); ok {
			c.Ok(rule, t.Key, t.Pos, fmt.Sprintf("%s %s -> %s is the %q edge (%s)", t.Kind, t.From, t.To, name, t.Chain))
		} else {
			c.Fail(rule, t.Key, t.Pos, fmt.Sprintf("%s from %s to %q reachable from %s is not an edge of the documented state machine for that operation (%s)", t.Kind, t.From, t.To, t.Root, t.Chain))
		}
	}
	floor := map[string]int{"memory": 40, "sqlite": 30, "postgres": 18}[backend]
	if filter == nil {
		c.Floor(rule, backend+"_transition_constructs", n, floor)
	} else {
		c.Count(rule+"."+backend+"_transition_constructs", n)
	}
}

var lifecycleCols = map[string]bool{"state": true, "attempt": true, "lease_id": true, "lease_until": true, "next_run_at": true, "dead_reason": true}
var identityFields = map[string]bool{"ID": true, "Route": true, "Target": true, "Payload": true, "Headers": true, "Trace": true, "ReceivedAt": true, "SchemaVersion": true}

func checkIdentityImmutable(c *Ctx, rule string) {
	p := c.P
	n := 0
	seen := map[*SQLStmt]bool{}
	for _, be := range []string{"sqlite", "postgres"} {
		for _, t := range p.sqlTransitions(be) {
			if t.Stmt.Verb() != "UPDATE" || seen[t.Stmt] {
				continue
			}
			seen[t.Stmt] = true
			n++
			var bad []string
			for _, col := range t.SetCols {
				if !lifecycleCols[strings.ToLower(col)] {
					bad = append(bad, col)
				}
			}
			key := p.SQL().Key(t.Stmt) + ":set-columns"
			if len(bad) == 0 {
				c.Ok(rule, key, t.Pos, "SET "+strings.Join(t.SetCols, ","))
			} else {
				c.Fail(rule, key, t.Pos, "UPDATE writes identity column(s) "+strings.Join(bad, ","))
			}
		}
	}
	c.Floor(rule, "update_statements", n, 25)
	// memory: stores to identity fields of an Envelope through a non-local pointer
	envT := p.Named("queue", "Envelope")
	st := envT.Underlying().(*types.Struct)
	nStores, nLocal := 0, 0
	for _, fn := range p.FuncsInPkg("queue") {
		recvIsMem := false
		root := fn
		for root.Parent() != nil {
			root = root.Parent()
		}
		if root.Signature.Recv() != nil && namedName(root.Signature.Recv().Type()) == "MemoryStore" {
			recvIsMem = true
		}
		if !recvIsMem {
			continue
		}
		for _, b := range fn.Blocks {
			for _, ins := range b.Instrs {
				s, ok := ins.(*ssa.Store)
				if !ok {
					continue
				}
				fa, ok := s.Addr.(*ssa.FieldAddr)
				if !ok {
					continue
				}
				pt, ok := fa.X.Type().Underlying().(*types.Pointer)
				if !ok || !types.Identical(pt.Elem(), envT) {
					continue
				}
				fname := st.Field(fa.Field).Name()
				if !identityFields[fname] {
					continue
				}
				nStores++
				if _, local := fa.X.(*ssa.Alloc); local {
					nLocal++
					continue // construction / response copy in a local variable
				}
				c.Fail(rule, fmt.Sprintf("memory.%s:store-%s", FuncName(fn), fname), p.InstrPos(s), "store to identity field "+fname+" through a pointer that may alias a stored item")
			}
		}
	}
	c.Count(rule+".memory_identity_field_stores", nStores)
	c.Check(nLocal == nStores, rule, "memory:identity-field-stores-are-local", "", fmt.Sprintf("%d store(s) to id/route/target/payload/headers/trace/received_at, all on local copies", nStores), "see individual findings")
	// payload/headers element writes: no IndexAddr store / MapUpdate on values loaded from an item's Payload/Headers/Trace
	nAlias := 0
	for _, fn := range p.FuncsInPkg("queue") {
		for _, b := range fn.Blocks {
			for _, ins := range b.Instrs {
				switch x := ins.(type) {
				case *ssa.MapUpdate:
					if _, f, ok := fieldOfLoad(x.Map); ok && (f == "Headers" || f == "Trace") && namedName(fieldOwner(x.Map)) == "Envelope" {
						nAlias++
						c.Fail(rule, fmt.Sprintf("queue.%s:map-update-%s", FuncName(fn), f), p.InstrPos(x), "in-place update of an envelope's "+f+" map")
					}
				case *ssa.Store:
					if ia, ok := x.Addr.(*ssa.IndexAddr); ok {
						if _, f, ok := fieldOfLoad(ia.X); ok && f == "Payload" && namedName(fieldOwner(ia.X)) == "Envelope" {
							nAlias++
							c.Fail(rule, fmt.Sprintf("queue.%s:payload-byte-store", FuncName(fn)), p.InstrPos(x), "in-place write into an envelope's Payload bytes")
						}
					}
				}
			}
		}
	}
	c.Check(nAlias == 0, rule, "queue:no-in-place-payload-or-header-writes", "", "no in-place write to Payload bytes or Headers/Trace maps of an envelope in package queue", "see individual findings")
}

// expiredEdges: edges of fn on which `x.Before(p.LeaseUntil)` is false (the lease has expired).
func expiredEdges(fn *ssa.Function) []Edge {
	var out []Edge
	for _, b := range fn.Blocks {
		for si := range b.Succs {
			a, ok := edgeAtom(Edge{b, si})
			if !ok || !isBoolTrue(a.Y) || a.Op != token.NEQ {
				continue
			}
			call, ok := a.X.(*ssa.Call)
			if !ok || !calleeIs(call, "time", "Time", "Before") || len(call.Call.Args) != 2 {
				continue
			}
			if _, f, ok := fieldOfLoad(call.Call.Args[1]); ok && f == "LeaseUntil" {
				out = append(out, Edge{b, si})
			}
		}
	}
	return out
}

// maintenanceHelpers: helpers called directly from >= 4 exported methods of the
// store whose transitive events are only prunable deletes.
func maintenanceHelpers(p *Program, sf *stateFlow) map[*ssa.Function]bool {
	out := map[*ssa.Function]bool{}
	evByFn := map[*ssa.Function][]*sfEvent{}
	for i := range sf.Events {
		e := &sf.Events[i]
		evByFn[e.Fn] = append(evByFn[e.Fn], e)
	}
	for _, f := range p.MethodsOf("queue", "MemoryStore") {
		if token.IsExported(f.Name()) {
			continue
		}
		callers := map[*ssa.Function]bool{}
		for _, cs := range p.CallSitesOf(f) {
			if pf := cs.Parent(); pf.Parent() == nil && token.IsExported(pf.Name()) {
				callers[pf] = true
			}
		}
		if len(callers) < 4 {
			continue
		}
		onlyPrune := true
		any := false
		consider := func(e *sfEvent) {
			any = true
			if e.Kind == "lease-delete" {
				return
			}
			if e.Kind != "delete" || e.From == ssTop || e.From&^patPrune.From != 0 {
				onlyPrune = false
			}
		}
		for g := range p.Reach(f) {
			for _, e := range evByFn[g] {
				if strings.Contains(e.Chain, f.Name()) {
					consider(e)
				}
			}
		}
		// events of f's body where f has been expanded into an operation
		for i := range sf.Events {
			for _, h := range p.InlinedFrom(sf.Events[i].Instr) {
				if h == f {
					consider(&sf.Events[i])
				}
			}
		}
		if any && onlyPrune {
			out[f] = true
		}
	}
	return out
}

// checkFailedOpEffectFree: C02.R4 (and C12.R1 / C15.R3 through the filter).
func checkFailedOpEffectFree(c *Ctx, rule string, rootFilter func(string) bool) {
	p := c.P
	p.memoryTransitions()
	sf := p.memFlow
	maint := maintenanceHelpers(p, sf)
	for f := range maint {
		c.Assume("maintenance helper (prune-only deletes, called from >=4 operations): " + FuncName(f))
	}
	// events per function (direct)
	direct := map[*ssa.Function][]*sfEvent{}
	for i := range sf.Events {
		e := &sf.Events[i]
		if e.Kind == "lease-delete" {
			continue
		}
		direct[e.Fn] = append(direct[e.Fn], e)
	}
	hasEvents := func(f *ssa.Function) bool {
		if maint[f] {
			return false
		}
		for g := range p.Reach(f) {
			if len(direct[g]) > 0 {
				return true
			}
		}
		return false
	}
	nOps := 0
	for _, fn := range p.MethodsOf("queue", "MemoryStore") {
		if !token.IsExported(fn.Name()) || (rootFilter != nil && !rootFilter(fn.Name())) {
			continue
		}
		// does this op have an error result?
		res := fn.Signature.Results()
		if res.Len() == 0 || !types.Identical(res.At(res.Len()-1).Type(), types.Universe.Lookup("error").Type()) {
			continue
		}
		type mp struct {
			ins  ssa.Instruction
			what string
		}
		var muts []mp
		seenIns := map[ssa.Instruction]bool{}
		fn := p.View(fn) // helpers of the package are part of the operation
		for _, e := range direct[fn] {
			inMaint := false
			for _, h := range p.InlinedFrom(e.Instr) {
				if maint[h] {
					inMaint = true
				}
			}
			if inMaint {
				continue
			}
			if e.Root == fn.Name() && !seenIns[e.Instr] {
				seenIns[e.Instr] = true
				muts = append(muts, mp{e.Instr, e.Kind + "->" + e.ToStr})
			}
		}
		for _, cs := range allCalls(fn, func(ci ssa.CallInstruction) bool {
			f := ci.Common().StaticCallee()
			return f != nil && IsModuleFunc(f) && hasEvents(f)
		}) {
			muts = append(muts, mp{cs, "call " + cs.Common().StaticCallee().Name()})
		}
		if len(muts) == 0 {
			continue
		}
		nOps++
		exp := expiredEdges(fn)
		bad := false
		for _, m := range muts {
			// expiry exemption: mutation only reachable through an "expired" edge
			if len(exp) > 0 {
				if okp, _ := p.MustPass(fn, m.ins, exp); okp {
					continue
				}
			}
			var errRets []string
			for _, r := range returnsOf(fn) {
				k := errResultKind(r)
				if k == "nil" || k == "none" {
					continue
				}
				// reachable from the mutation?
				reachable := false
				if r.Block() == m.ins.Block() {
					reachable = instrIndex(m.ins) < instrIndex(r)
				}
				if !reachable {
					par := reach(m.ins.Block().Succs, nil, nil)
					_, reachable = par[r.Block()]
				}
				if reachable {
					errRets = append(errRets, p.InstrPos(r))
				}
			}
			if len(errRets) > 0 {
				bad = true
				c.Fail(rule, fmt.Sprintf("memory.%s:%s-then-error-return", fn.Name(), strings.ReplaceAll(m.what, " ", "-")), p.InstrPos(m.ins),
					fmt.Sprintf("error return(s) at %s reachable after the mutation %q — a refused operation would have changed the queue", strings.Join(errRets, ", "), m.what))
			}
		}
		if !bad {
			c.Ok(rule, "memory."+fn.Name()+":no-error-return-after-mutation", p.Pos(fn.Pos()), fmt.Sprintf("%d mutation point(s); none can be followed by an error return (expired-lease release and retention maintenance exempt)", len(muts)))
		}
	}
	if rootFilter == nil {
		c.Floor(rule, "memory_mutating_operations", nOps, 15)
	}
	// SQL: at most one autocommit mutation (outside prune) per path outside a transaction
	m := p.Tx()
	for _, be := range []string{"sqlite", "postgres"} {
		byFn := map[*ssa.Function][]*SQLStmt{}
		for _, s := range p.SQL().Stmts {
			if s.Backend != be || !s.IsMutation() || s.Table() != "queue_items" || s.Fn == nil {
				continue
			}
			if !strings.HasPrefix(s.Site.recvKind, "db") && !strings.Contains(s.Site.recvKind, ":db") {
				continue
			}
			byFn[s.Fn] = append(byFn[s.Fn], s)
		}
		var fns []*ssa.Function
		for f := range byFn {
			fns = append(fns, f)
		}
		sort.Slice(fns, func(i, j int) bool { return fns[i].Pos() < fns[j].Pos() })
		autoFns := map[*ssa.Function]bool{}
		for _, f := range fns {
			autoFns[f] = true
		}
		for _, root := range p.MethodsOf("queue", backendStoreType[be]) {
			if !token.IsExported(root.Name()) || (rootFilter != nil && !rootFilter(root.Name())) {
				continue
			}
			// count autocommit non-prune mutation sites reachable from root (outside tx functions)
			var sites []string
			for g := range p.Reach(root) {
				if isTx(m, g) {
					continue
				}
				for _, s := range byFn[g] {
					set, has, _ := p.SQL().whereStateSet(s)
					isPrune := s.Verb() == "DELETE" && has && set&^patPrune.From == 0 && g != root && p.SharedBy(g) >= 4
					if isPrune {
						continue
					}
					sites = append(sites, p.SQL().Key(s))
				}
			}
			sort.Strings(sites)
			sites = dedup(sites)
			if len(sites) == 0 {
				continue
			}
			key := be + "." + root.Name() + ":single-autocommit-mutation"
			// several sites are fine when they are alternatives (Ack: UPDATE or DELETE); flag only when one can follow another
			if len(sites) <= 1 || sqlSitesAreAlternatives(p, root, byFn) {
				c.Ok(rule, key, p.Pos(root.Pos()), fmt.Sprintf("autocommit mutation site(s) outside a transaction: %s (at most one executes per call)", strings.Join(sites, "; ")))
			} else if be == "postgres" {
				c.Note("%s postgres %s runs several autocommit mutations in sequence outside a transaction (%s); not armed: cannot be demonstrated without a server (DESIGN §4 F8)", rule, root.Name(), strings.Join(sites, "; "))
				c.Ok(rule, key, p.Pos(root.Pos()), "NOTE only (postgres): "+strings.Join(sites, "; "))
			} else {
				c.Fail(rule, key, p.Pos(root.Pos()), "several autocommit mutations can execute in sequence outside a transaction: "+strings.Join(sites, "; "))
			}
		}
	}
}

// sqlSitesAreAlternatives: within each function, no autocommit mutation site can reach another one.
func sqlSitesAreAlternatives(p *Program, root *ssa.Function, byFn map[*ssa.Function][]*SQLStmt) bool {
	nFns := 0
	for g := range p.Reach(root) {
		ss := byFn[g]
		if len(ss) == 0 {
			continue
		}
		nFns++
		var calls []ssa.CallInstruction
		for _, s := range ss {
			holder := g
			call := ssaCallAt(g, s.Site.call.Lparen)
			if call == nil {
				for _, a := range allAnon(g) {
					if cc := ssaCallAt(a, s.Site.call.Lparen); cc != nil {
						call, holder = cc, a
					}
				}
			}
			_ = holder
			if call != nil {
				calls = append(calls, call)
			}
		}
		for i, a := range calls {
			for j, b := range calls {
				if i == j || a.Parent() != b.Parent() {
					continue
				}
				par := reach(a.Block().Succs, nil, nil)
				if _, ok := par[b.Block()]; ok || (a.Block() == b.Block() && instrIndex(a) < instrIndex(b)) {
					return false
				}
			}
		}
	}
	return nFns <= 1
}

func checkMemoryLocking(c *Ctx, rule string) {
	p := c.P
	lm := p.lockAnalysis("queue", "MemoryStore", p.mutexField("queue", "MemoryStore"))
	var fields []string
	for f := range lm.Mutable {
		fields = append(fields, f)
	}
	sort.Strings(fields)
	c.Count(rule+".mutable_fields", len(fields))
	c.Count(rule+".accesses", len(lm.Accesses))
	perFn := map[*ssa.Function][2]int{}
	for _, a := range lm.Accesses {
		v := perFn[a.Fn]
		if a.Held {
			v[0]++
		} else {
			v[1]++
			kind := "read"
			if a.Write {
				kind = "write"
			}
			c.Fail(rule, fmt.Sprintf("memory.%s:%s-%s-unlocked", FuncName(a.Fn), kind, a.Field), p.InstrPos(a.Instr), fmt.Sprintf("%s of MemoryStore.%s while the store mutex is not must-held", kind, a.Field))
		}
		perFn[a.Fn] = v
	}
	var fns []*ssa.Function
	for f := range perFn {
		fns = append(fns, f)
	}
	sort.Slice(fns, func(i, j int) bool { return fns[i].Pos() < fns[j].Pos() })
	for _, f := range fns {
		if perFn[f][1] == 0 {
			entry := "acquires the mutex itself"
			if lm.EntryHeld[f] {
				entry = "entered with the mutex held at every call site"
			}
			c.Ok(rule, "memory."+FuncName(f)+":accesses-under-mutex", p.Pos(f.Pos()), fmt.Sprintf("%d access(es) to mutable fields {%s}; %s", perFn[f][0], strings.Join(fields, ","), entry))
		}
	}
	c.Floor(rule, "functions_with_accesses", len(fns), 30)
}
