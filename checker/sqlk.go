package main

// K4 driver: extract every SQL statement executed by package queue, bind its
// placeholders to Go argument expressions and attribute it to its function.

import (
	"go/ast"
	"go/types"
	"path/filepath"
	"sort"
	"strings"

	"golang.org/x/tools/go/ssa"
)

type SQLStmt struct {
	Site      sqSite
	B         sqBound
	St        sqStmt
	Decl      *types.Func
	Fn        *ssa.Function
	Backend   string // sqlite | postgres | other
	Pos       string
	Undecided []string
	Text      string // resolved normalised text
}

type SQLModel struct {
	ev    *sqEval
	Stmts []*SQLStmt
	Notes []string
	p     *Program
}

func (p *Program) SQL() *SQLModel {
	if p.sqlModel != nil {
		return p.sqlModel
	}
	pkg := p.Pkg("queue")
	m := &SQLModel{p: p}
	e := &sqEval{pkg: pkg, info: pkg.TypesInfo, fset: pkg.Fset, wrappers: map[*types.Func]*sqWrapper{}, lastCallSite: map[*ast.CallExpr]int{}}
	m.ev = e
	var decls []*ast.FuncDecl
	for _, f := range pkg.Syntax {
		for _, d := range f.Decls {
			if fd, ok := d.(*ast.FuncDecl); ok && fd.Body != nil {
				decls = append(decls, fd)
			}
		}
	}
	for _, fd := range decls {
		before, sc := e.analyzeFunc(fd)
		for _, s := range e.sites[before:] {
			if hasParamSeg(s.query) {
				obj := pkg.TypesInfo.Defs[fd.Name].(*types.Func)
				e.wrappers[obj] = &sqWrapper{fn: obj, decl: fd, query: s.query, args: s.args, recvKind: s.recvKind, paramIdx: sc.params}
			}
		}
	}
	// parametric helpers: unexported functions with an SQL site and enumerable parameters (a state, a set of states,
	// a column name) that every call site in the package binds to constants; their statements are evaluated per call
	// site, in the calling operation
	e.parametric = map[*types.Func]*ast.FuncDecl{}
	hasSite := map[*types.Func]bool{}
	for _, s := range e.sites {
		if s.decl != nil {
			hasSite[s.decl] = true
		}
	}
	for _, fd := range decls {
		obj, _ := pkg.TypesInfo.Defs[fd.Name].(*types.Func)
		if obj == nil || !hasSite[obj] || ast.IsExported(fd.Name.Name) {
			continue
		}
		enum := false
		for _, f := range fd.Type.Params.List {
			for _, n := range f.Names {
				if v, ok := pkg.TypesInfo.Defs[n].(*types.Var); ok {
					if _, ok := enumParam(v.Type()); ok {
						enum = true
					}
				}
			}
		}
		if !enum {
			continue
		}
		nCalls, allConst := 0, true
		for _, gd := range decls {
			ast.Inspect(gd.Body, func(n ast.Node) bool {
				ce, ok := n.(*ast.CallExpr)
				if !ok || e.calleeFunc(ce) != obj {
					return true
				}
				nCalls++
				if _, ok := e.bindParametric(obj, fd, ce); !ok {
					allConst = false
				}
				return true
			})
		}
		if nCalls > 0 && allConst {
			e.parametric[obj] = fd
			m.Notes = append(m.Notes, "parametric SQL helper instantiated per call site: "+fd.Name.Name)
		}
	}
	e.sites = nil
	e.notes = nil
	e.lastCallSite = map[*ast.CallExpr]int{}
	for _, fd := range decls {
		e.analyzeFunc(fd)
	}
	for _, s := range e.sites {
		if hasParamSeg(s.query) {
			continue // body of a wrapper; instantiated at its call sites
		}
		if !s.inst && s.decl != nil && e.parametric[s.decl] != nil {
			continue // body of a parametric helper; instantiated at its call sites
		}
		b := bindSite(s)
		st := parseSQL(b.text)
		x := &SQLStmt{Site: s, B: b, St: st, Decl: s.decl, Undecided: b.errs}
		if s.decl != nil {
			x.Fn = p.SSA.FuncValue(s.decl)
		}
		base := filepath.Base(s.pos.Filename)
		switch {
		case strings.HasPrefix(base, "sqlite"):
			x.Backend = "sqlite"
		case strings.HasPrefix(base, "postgres"):
			x.Backend = "postgres"
		default:
			x.Backend = "other"
		}
		x.Pos = p.Pos(s.call.Pos())
		x.Text = sqResolve(e, b, st.raw)
		if strings.Contains(b.text, "⟦") {
			x.Undecided = append(x.Undecided, "statement text not fully reconstructed: "+sqNorm(b.text))
		}
		m.Stmts = append(m.Stmts, x)
	}
	sort.SliceStable(m.Stmts, func(i, j int) bool {
		a, b := m.Stmts[i].Site.pos, m.Stmts[j].Site.pos
		if a.Filename != b.Filename {
			return a.Filename < b.Filename
		}
		if a.Line != b.Line {
			return a.Line < b.Line
		}
		return a.Column < b.Column
	})
	m.Notes = e.notes
	p.sqlModel = m
	return m
}

// R resolves placeholder markers in a fragment of statement s.
func (m *SQLModel) R(s *SQLStmt, frag string) string { return sqResolve(m.ev, s.B, frag) }

// Table returns the first word of the statement's table clause.
func (s *SQLStmt) Table() string {
	f := strings.Fields(s.St.table + " -")
	return strings.TrimSuffix(f[0], ";")
}

// Verb without the WITH- prefix.
func (s *SQLStmt) Verb() string { return strings.TrimPrefix(s.St.verb, "WITH-") }

func (s *SQLStmt) IsMutation() bool {
	switch s.Verb() {
	case "INSERT", "UPDATE", "DELETE":
		return true
	}
	return false
}

// Key is a stable construct key for a statement: backend.func:VERB table[#n]
func (m *SQLModel) Key(s *SQLStmt) string {
	fn := s.Site.fn
	fn = strings.ReplaceAll(fn, "$lit", "")
	base := s.Backend + "." + fn + ":" + s.St.verb + " " + s.Table()
	// disambiguate several statements of the same verb in one function by ordinal
	n, idx := 0, 0
	for _, o := range m.Stmts {
		of := strings.ReplaceAll(o.Site.fn, "$lit", "")
		if o.Backend == s.Backend && of == fn && o.St.verb == s.St.verb && o.Table() == s.Table() {
			if o == s {
				idx = n
			}
			n++
		}
	}
	if n > 1 {
		base += "#" + string(rune('1'+idx))
	}
	return base
}
