package main

import (
	"fmt"
	"sort"
	"strings"

	"golang.org/x/tools/go/ssa"
)

// C13.R10 — terminal timestamps agree.
//
// When a message reaches delivered, dead or canceled both backends stamp it (next_run_at / NextRunAt): retention of
// delivered items is measured from that stamp (C13.R7), listings show it. Per operation and target state, the class of
// value written — the operation's now, now+delay, the zero time, or nothing — must be the same in the memory store
// and in SQLite.

func timeValueClass(v ssa.Value, depth int) string {
	if v == nil || depth > 6 {
		return "other"
	}
	switch x := v.(type) {
	case *ssa.Const:
		return "zero"
	case *ssa.Parameter:
		if isTimeTime(x.Type()) {
			return "now"
		}
	case *ssa.Call:
		if calleeIs(x, "time", "Time", "Add") {
			return "now+d"
		}
		if calleeIs(x, "time", "Time", "UTC") || calleeIs(x, "time", "Time", "Round") || calleeIs(x, "time", "Time", "Truncate") {
			return timeValueClass(x.Call.Args[0], depth+1)
		}
		if calleeIs(x, "time", "", "Now") {
			return "now"
		}
		if x.Call.StaticCallee() == nil && isTimeTime(x.Type()) {
			return "now" // the store's clock function
		}
		if g := x.Call.StaticCallee(); g != nil && IsModuleFunc(g) && isTimeTime(x.Type()) && g.Signature.Params().Len() == 0 {
			return "now"
		}
	case *ssa.Phi:
		cls := map[string]bool{}
		for _, e := range x.Edges {
			cls[timeValueClass(e, depth+1)] = true
		}
		var ks []string
		for k := range cls {
			ks = append(ks, k)
		}
		sort.Strings(ks)
		return strings.Join(ks, "|")
	case *ssa.UnOp:
		if al, ok := x.X.(*ssa.Alloc); ok {
			n := 0
			cls := map[string]bool{}
			for _, ref := range *al.Referrers() {
				if st, ok := ref.(*ssa.Store); ok && st.Addr == al {
					n++
					cls[timeValueClass(st.Val, depth+1)] = true
				}
			}
			if n == 0 {
				return "zero"
			}
			var ks []string
			for k := range cls {
				ks = append(ks, k)
			}
			sort.Strings(ks)
			return strings.Join(ks, "|")
		}
		if _, ok := x.X.(*ssa.FreeVar); ok {
			return "now"
		}
	}
	return "other"
}

func checkTerminalTimeParity(c *Ctx, rule string) {
	p := c.P
	m := p.SQL()
	type key struct{ root, to string }
	norm := func(root string) string { return strings.TrimSuffix(root, "Batch") }
	sq := map[key]map[string]bool{}
	for _, t := range p.sqlTransitions("sqlite") {
		if t.Kind != "store" || (t.To != "delivered" && t.To != "dead" && t.To != "canceled") {
			continue
		}
		k := key{norm(t.Root), t.To}
		if sq[k] == nil {
			sq[k] = map[string]bool{}
		}
		rhs, ok := t.Stmt.St.set["next_run_at"]
		if !ok {
			sq[k]["unchanged"] = true
			continue
		}
		cls := "other"
		if ex := m.operandExpr(t.Stmt, rhs); ex != nil {
			cls, _ = p.ClockKind(ex, t.Stmt.Decl)
			if strings.HasPrefix(cls, "other") {
				cls = "other"
			}
		}
		sq[k][cls] = true
	}
	p.memoryTransitions()
	sf := p.memFlow
	mem := map[key]map[string]bool{}
	memPos := map[key]string{}
	for i := range sf.Events {
		e := &sf.Events[i]
		to := strings.Trim(e.ToStr, "{}")
		if e.Kind != "store" || (to != "delivered" && to != "dead" && to != "canceled") {
			continue
		}
		k := key{norm(e.Root), to}
		if mem[k] == nil {
			mem[k] = map[string]bool{}
		}
		st := e.Instr.(*ssa.Store)
		ptr := st.Addr.(*ssa.FieldAddr).X
		cls := "unchanged"
		for _, ins := range st.Block().Instrs {
			if s2, ok := ins.(*ssa.Store); ok {
				if fa, ok := s2.Addr.(*ssa.FieldAddr); ok && fa.X == ptr {
					if _, f, _ := fieldAddrName(fa); f == "NextRunAt" {
						cls = timeValueClass(s2.Val, 0)
					}
				}
			}
		}
		mem[k][cls] = true
		memPos[k] = p.InstrPos(st)
	}
	var keys []key
	for k := range mem {
		if _, ok := sq[k]; ok {
			keys = append(keys, k)
		}
	}
	sort.Slice(keys, func(i, j int) bool { return keys[i].root+keys[i].to < keys[j].root+keys[j].to })
	set := func(m map[string]bool) string {
		var ks []string
		for k := range m {
			ks = append(ks, k)
		}
		sort.Strings(ks)
		return strings.Join(ks, ",")
	}
	for _, k := range keys {
		a, b := set(mem[k]), set(sq[k])
		c.Check(a == b, rule, fmt.Sprintf("Store.%s:→%s:next_run_at(memory=sqlite)", k.root, k.to), memPos[k],
			"both backends stamp "+b,
			fmt.Sprintf("on %s → %s the memory store writes NextRunAt = {%s} but SQLite writes next_run_at = {%s}: listings differ and retention, which is measured from this stamp, prunes at different instants", k.root, k.to, a, b))
	}
	c.Floor(rule, "terminal transitions compared", len(keys), 4)
}
