package main

import (
	"fmt"
	"go/types"
	"os"
	"sort"
	"strings"

	"golang.org/x/tools/go/ssa"
)

// C13.R10 — terminal timestamps agree.
//
// When a message reaches delivered, dead or canceled both backends stamp it (next_run_at / NextRunAt): retention of
// delivered items is measured from that stamp (C13.R7), listings show it. Per operation and target state, the class of
// value written — the operation's now, now+delay, the zero time, or nothing — must be the same in the memory store
// and in SQLite.

func timeValueClass(v ssa.Value, depth int) string {
	if v == nil || depth > 6 {
		return "other"
	}
	switch x := v.(type) {
	case *ssa.Const:
		return "zero"
	case *ssa.Parameter:
		if isTimeTime(x.Type()) {
			return "now"
		}
	case *ssa.Call:
		if calleeIs(x, "time", "Time", "Add") {
			return "now+d"
		}
		if calleeIs(x, "time", "Time", "UTC") || calleeIs(x, "time", "Time", "Round") || calleeIs(x, "time", "Time", "Truncate") {
			return timeValueClass(x.Call.Args[0], depth+1)
		}
		if calleeIs(x, "time", "", "Now") {
			return "now"
		}
		if x.Call.StaticCallee() == nil && isTimeTime(x.Type()) {
			return "now" // the store's clock function
		}
		if g := x.Call.StaticCallee(); g != nil && IsModuleFunc(g) && isTimeTime(x.Type()) && g.Signature.Params().Len() == 0 {
			return "now"
		}
	case *ssa.Field:
		if st, ok := x.X.Type().Underlying().(*types.Struct); ok && st.Field(x.Field).Name() == "Now" {
			return "now"
		}
	case *ssa.Phi:
		cls := map[string]bool{}
		for _, e := range x.Edges {
			cls[timeValueClass(e, depth+1)] = true
		}
		var ks []string
		for k := range cls {
			ks = append(ks, k)
		}
		sort.Strings(ks)
		return strings.Join(ks, "|")
	case *ssa.UnOp:
		if al, ok := x.X.(*ssa.Alloc); ok {
			n := 0
			cls := map[string]bool{}
			for _, ref := range *al.Referrers() {
				if st, ok := ref.(*ssa.Store); ok && st.Addr == al {
					n++
					cls[timeValueClass(st.Val, depth+1)] = true
				}
			}
			if n == 0 {
				return "zero"
			}
			var ks []string
			for k := range cls {
				ks = append(ks, k)
			}
			sort.Strings(ks)
			return strings.Join(ks, "|")
		}
		if _, ok := x.X.(*ssa.FreeVar); ok {
			return "now"
		}
		if fa, ok := x.X.(*ssa.FieldAddr); ok {
			if _, f, _ := fieldAddrName(fa); f == "LeaseUntil" {
				return "lease_until"
			} else if f == "Now" {
				return "now" // the instant the caller supplied with the request
			}
		}
	}
	return "other"
}

func checkTerminalTimeParity(c *Ctx, rule string) {
	p := c.P
	m := p.SQL()
	type key struct{ root, to string }
	norm := func(root string) string { return strings.TrimSuffix(root, "Batch") }
	sq := map[key]map[string]bool{}
	relSq, relMem := map[string]string{}, map[string]string{} // class of stamp written when a lease is released → first site
	relRootSq, relRootMem := map[string]map[bool]string{}, map[string]map[bool]string{} // per Store method: does the stamp of a released lease depend on its deadline
	for _, t := range p.sqlTransitions("sqlite") {
		if t.Kind == "store" && t.To == "queued" && t.Stmt.Verb() == "UPDATE" && (!t.HasFrom || t.From&ssParse("leased") != 0) {
			if rhs, ok := t.Stmt.St.set["next_run_at"]; ok {
				cls := "other"
				if strings.EqualFold(strings.TrimSpace(rhs), "lease_until") {
					cls = "lease_until"
				} else if lr := strings.ToLower(rhs); strings.Contains(lr, "lease_until") && (strings.HasPrefix(strings.TrimSpace(lr), "min(") || strings.HasPrefix(strings.TrimSpace(lr), "least(")) {
					cls = "lease_until|now"
				} else if ex := m.operandExpr(t.Stmt, rhs); ex != nil {
					cls, _ = p.ClockKind(ex, t.Stmt.Decl)
					if strings.HasPrefix(cls, "other") {
						cls = "other"
					}
				}
				if relSq[cls] == "" {
					relSq[cls] = m.Key(t.Stmt)
				}
				if cls != "now+d" {
					if relRootSq[t.Root] == nil {
						relRootSq[t.Root] = map[bool]string{}
					}
					relRootSq[t.Root][strings.Contains(cls, "lease_until")] = m.Key(t.Stmt)
				}
			}
		}
		if t.Kind != "store" || (t.To != "delivered" && t.To != "dead" && t.To != "canceled") {
			continue
		}
		k := key{norm(t.Root), t.To}
		if sq[k] == nil {
			sq[k] = map[string]bool{}
		}
		rhs, ok := t.Stmt.St.set["next_run_at"]
		if !ok {
			sq[k]["unchanged"] = true
			continue
		}
		cls := "other"
		if strings.EqualFold(strings.TrimSpace(rhs), "lease_until") {
			cls = "lease_until"
		} else if ex := m.operandExpr(t.Stmt, rhs); ex != nil {
			cls, _ = p.ClockKind(ex, t.Stmt.Decl)
			if strings.HasPrefix(cls, "other") {
				cls = "other"
			}
		}
		sq[k][cls] = true
	}
	p.memoryTransitions()
	sf := p.memFlow
	mem := map[key]map[string]bool{}
	memPos := map[key]string{}
	for i := range sf.Events {
		e := &sf.Events[i]
		to := strings.Trim(e.ToStr, "{}")
		if e.Kind == "store" && to == "queued" && e.From&ssParse("leased") != 0 {
			st := e.Instr.(*ssa.Store)
			ptr := st.Addr.(*ssa.FieldAddr).X
			for _, ins := range st.Block().Instrs {
				if s2, ok := ins.(*ssa.Store); ok {
					if fa, ok := s2.Addr.(*ssa.FieldAddr); ok && fa.X == ptr {
						if _, f, _ := fieldAddrName(fa); f == "NextRunAt" {
							cls := timeValueClass(s2.Val, 0)
							if relMem[cls] == "" {
								relMem[cls] = p.InstrPos(s2) // a merged value (lease_until|now) is one class: the stamp is chosen per message
							}
							if cls != "now+d" {
								if relRootMem[e.Root] == nil {
									relRootMem[e.Root] = map[bool]string{}
								}
								relRootMem[e.Root][strings.Contains(cls, "lease_until")] = p.InstrPos(s2)
							}
						}
					}
				}
			}
		}
		if e.Kind != "store" || (to != "delivered" && to != "dead" && to != "canceled") {
			continue
		}
		k := key{norm(e.Root), to}
		if mem[k] == nil {
			mem[k] = map[string]bool{}
		}
		st := e.Instr.(*ssa.Store)
		ptr := st.Addr.(*ssa.FieldAddr).X
		cls := "unchanged"
		for _, ins := range st.Block().Instrs {
			if s2, ok := ins.(*ssa.Store); ok {
				if fa, ok := s2.Addr.(*ssa.FieldAddr); ok && fa.X == ptr {
					if _, f, _ := fieldAddrName(fa); f == "NextRunAt" {
						cls = timeValueClass(s2.Val, 0)
					}
				}
			}
		}
		mem[k][cls] = true
		memPos[k] = p.InstrPos(st)
	}
	var keys []key
	for k := range mem {
		if _, ok := sq[k]; ok {
			keys = append(keys, k)
		}
	}
	sort.Slice(keys, func(i, j int) bool { return keys[i].root+keys[i].to < keys[j].root+keys[j].to })
	set := func(m map[string]bool) string {
		var ks []string
		for k := range m {
			ks = append(ks, k)
		}
		sort.Strings(ks)
		return strings.Join(ks, ",")
	}
	if os.Getenv("HK_DBG_R10") != "" {
		fmt.Fprintf(os.Stderr, "R10 release mem=%v sqlite=%v\n", relMem, relSq)
		fmt.Fprintf(os.Stderr, "R10 release-roots mem=%v\nR10 release-roots sqlite=%v\n", relRootMem, relRootSq)
		for k, v := range mem {
			fmt.Fprintf(os.Stderr, "R10 mem %s→%s %s | sqlite %s\n", k.root, k.to, set(v), set(sq[k]))
		}
		for k, v := range sq {
			if _, ok := mem[k]; !ok {
				fmt.Fprintf(os.Stderr, "R10 sqlite-only %s→%s %s\n", k.root, k.to, set(v))
			}
		}
	}
	for _, k := range keys {
		a, b := set(mem[k]), set(sq[k])
		c.Check(a == b, rule, fmt.Sprintf("Store.%s:→%s:next_run_at(memory=sqlite)", k.root, k.to), memPos[k],
			"both backends stamp "+b,
			fmt.Sprintf("on %s → %s the memory store writes NextRunAt = {%s} but SQLite writes next_run_at = {%s}: listings differ and retention, which is measured from this stamp, prunes at different instants", k.root, k.to, a, b))
	}
	c.Floor(rule, "terminal transitions compared", len(keys), 4)
	// a lease that is released (expiry sweep, expired-lease conflict, nack) is stamped alike wherever it happens
	ks := func(m map[string]string) string {
		var out []string
		for k := range m {
			out = append(out, k)
		}
		sort.Strings(out)
		return strings.Join(out, ",")
	}
	a, b := ks(relMem), ks(relSq)
	var where []string
	for cls, at := range relSq {
		if relMem[cls] == "" {
			where = append(where, "SQLite writes "+cls+" in "+at)
		}
	}
	for cls, at := range relMem {
		if relSq[cls] == "" {
			where = append(where, "memory writes "+cls+" at "+at)
		}
	}
	sort.Strings(where)
	var roots []string
	for r := range relRootMem {
		if _, ok := relRootSq[r]; ok {
			roots = append(roots, r)
		}
	}
	sort.Strings(roots)
	for _, r := range roots {
		mm, ss := relRootMem[r], relRootSq[r]
		_, md := mm[true]
		_, mn := mm[false]
		_, sd := ss[true]
		_, sn := ss[false]
		desc := func(d, n bool) string {
			switch {
			case d && n:
				return "the lease deadline on some paths and now on others"
			case d:
				return "the lease deadline"
			}
			return "now"
		}
		c.Check(md == sd && (mn == sn || (md && sd)), rule, "Store."+r+":released lease:next_run_at(memory=sqlite)", mm[md],
			"both backends stamp a lease released by "+r+" from "+desc(sd, sn),
			fmt.Sprintf("a lease released inside %s is stamped from %s by the memory store (%s) but from %s by SQLite (%s): after the same calls the backends list different next_run_at values, report different ready lag and offer the message at different instants", r, desc(md, mn), mm[md], desc(sd, sn), ss[sd && !md || sd]))
	}
	c.Floor(rule, "operations that can release a lease, compared", len(roots), 3)
	_, _, _ = a, b, where // the aggregated comparison was dropped: it needs the nack stamp in the block of the state store, which a closure-based settle helper does not give (false alarms on benign refactorings); the per-operation comparison above decides the clause
}
