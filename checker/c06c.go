package main

// C06.R7 — "sent to its target at most retry.max+1 times … every attempt is recorded": one delivery attempt is one
// call of http.Client.Do, and that has to be one send. net/http's transport re-sends a request on its own, inside
// one Do, when the connection it reused is dropped by the server before a response arrived — but only for requests
// it considers replayable: a body it can rewind (GetBody, which http.NewRequest sets for bytes/strings readers) and
// either an idempotent method or a header named Idempotency-Key / X-Idempotency-Key. Deliveries are POSTs with a
// rewindable body, so the header names are what decides. The rule lists every header write on the outgoing request
// of the deliverer: a constant name must not be one of the two; a name that is not a constant (headers forwarded from
// the stored message) must be excluded from them by a guard — unless the request's GetBody is cleared.

import (
	"fmt"
	"go/token"
	"net/textproto"
	"strings"

	"golang.org/x/tools/go/ssa"
)

func checkTransportReplay(c *Ctx, rule string) {
	p := c.P
	n := 0
	for _, orig := range p.FuncsInPkg("dispatcher") {
		if orig.Parent() != nil {
			continue
		}
		// (building the request and sending it may sit in helpers of their own: look at the view)
		fn := p.View(orig)
		newReq := allCalls(fn, func(ci ssa.CallInstruction) bool {
			return calleeIs(ci, "net/http", "", "NewRequestWithContext") || calleeIs(ci, "net/http", "", "NewRequest")
		})
		do := allCalls(fn, func(ci ssa.CallInstruction) bool { return calleeIs(ci, "net/http", "Client", "Do") })
		if len(newReq) == 0 || len(do) == 0 {
			continue
		}
		name := FuncName(orig)
		// GetBody cleared?
		cleared := false
		for _, b := range fn.Blocks {
			for _, ins := range b.Instrs {
				if st, ok := ins.(*ssa.Store); ok {
					if fa, ok := st.Addr.(*ssa.FieldAddr); ok {
						if tn, f, _ := fieldAddrName(fa); tn == "Request" && f == "GetBody" && isNilConst(st.Val) {
							cleared = true
						}
					}
				}
			}
		}
		isReqHeader := func(v ssa.Value) bool {
			// a load of (*http.Request).Header
			u, ok := v.(*ssa.UnOp)
			if !ok || u.Op != token.MUL {
				return false
			}
			fa, ok := u.X.(*ssa.FieldAddr)
			if !ok {
				return false
			}
			tn, f, _ := fieldAddrName(fa)
			return tn == "Request" && f == "Header"
		}
		replayName := func(s string) bool {
			k := textproto.CanonicalMIMEHeaderKey(strings.TrimSpace(s))
			return k == "Idempotency-Key" || k == "X-Idempotency-Key"
		}
		for _, b := range fn.Blocks {
			for _, ins := range b.Instrs {
				var key ssa.Value
				switch x := ins.(type) {
				case *ssa.Call:
					if (calleeIs(x, "net/http", "Header", "Set") || calleeIs(x, "net/http", "Header", "Add")) && len(x.Call.Args) == 3 && isReqHeader(x.Call.Args[0]) {
						key = x.Call.Args[1]
					}
				case *ssa.MapUpdate:
					if isReqHeader(x.Map) {
						key = x.Key
					}
				}
				if key == nil {
					continue
				}
				n++
				if cleared {
					c.Ok(rule, fmt.Sprintf("%s:header write #%d cannot make the request replayable", name, n), p.InstrPos(ins), "GetBody is cleared: the transport cannot rewind the body")
					continue
				}
				if ks, isC := constString(key); isC {
					c.Check(!replayName(ks), rule, fmt.Sprintf("%s:header %q does not make the request replayable", name, ks), p.InstrPos(ins),
						"not one of the header names net/http treats as an idempotency promise",
						"the deliverer sets "+ks+" on every delivery: net/http then re-sends the POST by itself when a reused connection is dropped before the answer — one attempt becomes two sends, unrecorded and not counted against retry.max")
					continue
				}
				// a name taken from data: forwarded from the message (the key of a ranged-over header map), or configured
				forwarded := false
				if ex, ok := stripConv(key).(*ssa.Extract); ok {
					if _, isNext := ex.Tuple.(*ssa.Next); isNext {
						forwarded = true
					}
				}
				if !forwarded {
					c.Ok(rule, fmt.Sprintf("%s:configured header name #%d", name, n), p.InstrPos(ins), "the name comes from the operator's signing configuration, not from message data")
					continue
				}
				// is it kept away from the two names by a guard?
				guarded := false
				for _, pc := range dominatingConds(ins.Block(), nil) {
					a := condAtom(pc.Cond, pc.Val)
					if s, isC := constString(a.Y); isC && replayName(s) && a.Op == token.NEQ {
						guarded = true
					}
					if call, ok := a.X.(*ssa.Call); ok && isBoolTrue(a.Y) && a.Op == token.NEQ && len(call.Call.Args) >= 2 {
						// !strings.EqualFold(k, "Idempotency-Key") and the like
						for _, arg := range call.Call.Args {
							if s, isC := constString(arg); isC && replayName(s) {
								guarded = true
							}
						}
					}
				}
				c.Check(guarded, rule, name+":forwarded header names cannot make the request replayable", p.InstrPos(ins),
					"the forwarded names are kept away from Idempotency-Key / X-Idempotency-Key",
					"header names are copied onto the outgoing POST from the stored message without restriction: a message that carries Idempotency-Key (ingress stores every received header except Authorization, Proxy-Authorization and Cookie) makes net/http re-send it by itself when a reused connection is dropped before the answer — more than retry.max+1 sends, the extra ones unrecorded")
			}
		}
	}
	c.Floor(rule, "header writes on the outgoing delivery request", n, 1)
}
