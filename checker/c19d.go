package main

import (
	"fmt"
	"go/constant"
	"go/token"
	"go/types"
	"regexp"
	"strings"

	"golang.org/x/tools/go/ssa"
)

// C19.R10 — every escape the quoting function writes can be read back.
//
// The quoting function writes escapes either as fixed spellings (`\n`, `\"`, …: constants, compared with the lexer's
// table by C19.R3) or — if a numeric form exists — through a format verb. A numeric escape has to be unambiguous for
// a reader that cannot see where the number ends: it needs a fixed width (%0Nx), and the value written must fit that
// width, because %0N is a *minimum* width: a value of N+1 hex digits is written in full and read back as a different
// character followed by a literal digit. Decided on the functions of package config that write escape constants
// into a builder: every formatted write whose format contains a backslash uses only fixed-width hex verbs, and each
// operand of such a verb is bounded by 16^N-1 — by its type (byte with %02x, uint16 with %04x) or by a dominating
// comparison with a constant.

var reFixedHex = regexp.MustCompile(`^%0(\d+)[xX]$`)

func checkEscapeWidths(c *Ctx, rule string) {
	p := c.P
	nConst, nNum := 0, 0
	for _, fn := range p.FuncsInPkg("config") {
		// the quoting role: writes a constant beginning with a backslash into a builder / buffer
		consts := 0
		for _, ci := range allCalls(fn, nil) {
			g := ci.Common().StaticCallee()
			if g == nil || g.Name() != "WriteString" || len(ci.Common().Args) != 2 {
				continue
			}
			if sv, ok := constString(ci.Common().Args[1]); ok && strings.HasPrefix(sv, `\`) {
				consts++
			}
		}
		if consts == 0 {
			continue
		}
		nConst += consts
		for _, ci := range allCalls(fn, nil) {
			g := ci.Common().StaticCallee()
			if g == nil || g.Pkg == nil || g.Pkg.Pkg.Path() != "fmt" {
				continue
			}
			fi := -1
			switch g.Name() {
			case "Fprintf", "Appendf":
				fi = 1
			case "Sprintf":
				fi = 0
			}
			if fi < 0 || fi+1 >= len(ci.Common().Args) {
				continue
			}
			format, ok := constString(ci.Common().Args[fi])
			if !ok || !strings.Contains(format, `\`) {
				continue
			}
			nNum++
			key := fmt.Sprintf("config.%s:numeric escape %q", fn.Name(), format)
			elems, okE := varargElems(ci.Common().Args[fi+1])
			verbs := fullVerbs(format)
			if !okE || len(elems) != len(verbs) {
				c.Undecided(rule, key, p.InstrPos(ci), "operands of the formatted escape could not be listed")
				continue
			}
			bad := ""
			for i, vb := range verbs {
				m := reFixedHex.FindStringSubmatch(vb)
				if m == nil {
					bad = fmt.Sprintf("the verb %s has no fixed width: the lexer cannot know where the number ends", vb)
					break
				}
				n := 0
				fmt.Sscanf(m[1], "%d", &n)
				if n <= 0 || n > 8 {
					bad = "unsupported width in " + vb
					break
				}
				max := uint64(1)<<(4*uint(n)) - 1
				v := elems[i]
				if mi, ok := v.(*ssa.MakeInterface); ok {
					v = mi.X
				}
				if !valueBoundedBy(v, max, ci) {
					bad = fmt.Sprintf("the operand of %s (%s) can exceed %#x: %%0%d is a minimum width, so a larger value is written with more digits and read back as a different character followed by a literal digit — the formatted file no longer means what the original meant", vb, shortVal18(v), max, n)
					break
				}
			}
			c.Check(bad == "", rule, key, p.InstrPos(ci), "fixed-width hex verbs whose operands fit the width", bad)
		}
	}
	c.Check(nConst >= 5, rule, "config:escape constants written by the quoting function", "", fmt.Sprintf("%d constant escape spellings, %d formatted (numeric) escapes examined", nConst, nNum), fmt.Sprintf("only %d constant escapes found: the quoting function was not recognised", nConst))
}

// fullVerbs: the complete verb texts of a format string ("%04x"), %% excluded.
func fullVerbs(f string) []string {
	var out []string
	for i := 0; i < len(f); i++ {
		if f[i] != '%' {
			continue
		}
		j := i + 1
		for j < len(f) && strings.ContainsRune("+-# 0123456789.[]*", rune(f[j])) {
			j++
		}
		if j < len(f) {
			if f[j] != '%' {
				out = append(out, f[i:j+1])
			}
			i = j
		}
	}
	return out
}

// valueBoundedBy: v <= max holds where `at` executes — by v's type or by a dominating comparison with a constant.
func valueBoundedBy(v ssa.Value, max uint64, at ssa.Instruction) bool {
	for {
		if cv, ok := v.(*ssa.Convert); ok {
			// a widening conversion keeps the bound of the narrower type
			if b, ok := cv.X.Type().Underlying().(*types.Basic); ok {
				switch b.Kind() {
				case types.Uint8:
					if max >= 0xFF {
						return true
					}
				case types.Uint16:
					if max >= 0xFFFF {
						return true
					}
				}
			}
			v = cv.X
			continue
		}
		break
	}
	if b, ok := v.Type().Underlying().(*types.Basic); ok {
		switch b.Kind() {
		case types.Uint8:
			return max >= 0xFF
		case types.Uint16:
			return max >= 0xFFFF
		}
	}
	if cst, ok := v.(*ssa.Const); ok && cst.Value != nil && cst.Value.Kind() == constant.Int {
		u, exact := constant.Uint64Val(cst.Value)
		return exact && u <= max
	}
	for _, pc := range dominatingConds(at.Block(), loopHeaderOf(at.Block())) {
		bo, ok := pc.Cond.(*ssa.BinOp)
		if !ok {
			continue
		}
		op, x, y := bo.Op, bo.X, bo.Y
		if !pc.Val {
			switch op {
			case token.LEQ:
				op = token.GTR
			case token.LSS:
				op = token.GEQ
			case token.GTR:
				op = token.LEQ
			case token.GEQ:
				op = token.LSS
			default:
				continue
			}
		}
		// normalise to v OP const
		if y == v || sameLoad(y, v) {
			x, y = y, x
			switch op {
			case token.LEQ:
				op = token.GEQ
			case token.LSS:
				op = token.GTR
			case token.GTR:
				op = token.LSS
			case token.GEQ:
				op = token.LEQ
			}
		}
		if !(x == v || sameLoad(x, v)) {
			continue
		}
		cst, ok := y.(*ssa.Const)
		if !ok || cst.Value == nil || cst.Value.Kind() != constant.Int {
			continue
		}
		u, exact := constant.Uint64Val(cst.Value)
		if !exact {
			continue
		}
		if (op == token.LEQ && u <= max) || (op == token.LSS && u <= max+1) {
			return true
		}
	}
	return false
}

func sameLoad(a, b ssa.Value) bool {
	ua, ok1 := a.(*ssa.UnOp)
	ub, ok2 := b.(*ssa.UnOp)
	return ok1 && ok2 && ua.Op == token.MUL && ub.Op == token.MUL && ua.X == ub.X
}
