package main

import (
	"fmt"
	"go/token"
	"go/types"

	"golang.org/x/tools/go/ssa"
)

// C08.R7 — the per-route hooks are asked about the route that was resolved.
//
// The ingress handler resolves a request to a route name and then asks a series of hooks of the form
// func(route string, …) — authenticators, limits, rate limits, targets — about that route. The hooks are keyed by
// route name; asked about anything else (the request path, say, which equals the route name only for exact-path
// routes) their lookup misses and "nothing configured" is the answer: authentication is skipped for every request
// below a prefix route. Decided on the inlined view of the handler, so that helpers which take the route as a
// parameter are seen with the value their caller hands them: the first operand of every such hook call is the
// resolver's route result (or the merge of it with the resolver's own default when no resolver is installed).

func checkHooksAskedAboutResolvedRoute(c *Ctx, rule string) {
	p := c.P
	fn := p.Func("ingress", "(*Server).ServeHTTP")
	if fn == nil {
		c.Fail(rule, "anchor:ingress.ServeHTTP", "", "anchor not found")
		return
	}
	hookField := func(ci ssa.CallInstruction) (string, *types.Signature, bool) {
		com := ci.Common()
		if com.IsInvoke() || com.StaticCallee() != nil {
			return "", nil, false
		}
		ld, ok := com.Value.(*ssa.UnOp)
		if !ok || ld.Op != token.MUL {
			return "", nil, false
		}
		fa, ok := ld.X.(*ssa.FieldAddr)
		if !ok {
			return "", nil, false
		}
		tn, f, _ := fieldAddrName(fa)
		if tn != "Server" {
			return "", nil, false
		}
		sig, ok := com.Value.Type().Underlying().(*types.Signature)
		if !ok {
			return "", nil, false
		}
		return f, sig, true
	}
	// the resolver call: a hook (*http.Request, string) (string, bool)
	var resolver ssa.CallInstruction
	for _, ci := range allCalls(fn, nil) {
		if _, sig, ok := hookField(ci); ok && sig.Params().Len() == 2 && sig.Results().Len() == 2 &&
			isString(sig.Params().At(1).Type()) && isString(sig.Results().At(0).Type()) && types.Identical(sig.Results().At(1).Type(), types.Typ[types.Bool]) {
			resolver = ci
		}
	}
	if resolver == nil {
		c.Undecided(rule, "ingress.ServeHTTP:resolver call", p.Pos(fn.Pos()), "the call of the route resolver hook was not found in the handler")
		return
	}
	rv, _ := resolver.(ssa.Value)
	def := resolver.Common().Args[1] // what the handler uses as the route when no resolver is installed
	var accepted func(v ssa.Value, depth int, seen map[ssa.Value]bool) bool
	accepted = func(v ssa.Value, depth int, seen map[ssa.Value]bool) bool {
		if v == nil || depth > 6 {
			return false
		}
		if seen[v] {
			return true
		}
		seen[v] = true
		switch x := v.(type) {
		case *ssa.Extract:
			return x.Tuple == rv && x.Index == 0
		case *ssa.Phi:
			some := false
			for _, e := range x.Edges {
				if e == def {
					continue
				}
				if !accepted(e, depth+1, seen) {
					return false
				}
				some = true
			}
			return some
		case *ssa.ChangeType:
			return accepted(x.X, depth+1, seen)
		}
		return false
	}
	n := 0
	for _, ci := range allCalls(fn, nil) {
		f, sig, ok := hookField(ci)
		if !ok || ci == resolver || sig.Params().Len() == 0 || sig.Params().At(0).Name() != "route" || !isString(sig.Params().At(0).Type()) {
			continue
		}
		arg := ci.Common().Args[0]
		if cst, isC := arg.(*ssa.Const); isC && cst.Value != nil {
			continue // observers called with "" before a route is known
		}
		n++
		c.Check(accepted(arg, 0, map[ssa.Value]bool{}), rule, fmt.Sprintf("ingress.ServeHTTP:%s#%d is asked about the resolved route", f, n), p.InstrPos(ci),
			"operand is the resolver's route result",
			fmt.Sprintf("the hook %s is keyed by route name but is called with %s, which is not the route the resolver returned: for a request below a prefix route (or on a \"/\" route) the lookup misses and the hook answers as if nothing were configured — authentication, limits or targets of the route are not applied", f, shortVal18(arg)))
	}
	c.Floor(rule, "per-route hook calls in the ingress handler", n, 6)
}

func isString(t types.Type) bool {
	b, ok := t.Underlying().(*types.Basic)
	return ok && b.Info()&types.IsString != 0
}
