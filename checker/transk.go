package main

// Transition model shared by C02/C03/C04/C13/C14: every construct that changes
// a message's state (memory: K3 events; SQL: K4 statements) as
// (backend, root operation, kind, from-set, to-state).

import (
	"fmt"
	"go/ast"
	"go/constant"
	"go/token"
	"regexp"
	"sort"
	"strconv"
	"strings"

	"golang.org/x/tools/go/ssa"
)

type Trans struct {
	Backend  string // memory | sqlite | postgres
	Root     string // exported Store method
	Kind     string // store | delete | insert | touch (UPDATE without state change)
	From     sset
	HasFrom  bool // SQL: statement has a state conjunct; memory: always true
	To       string
	Key      string
	Pos      string
	Chain    string
	Stmt     *SQLStmt
	Ev       *sfEvent
	SetCols  []string
	Undecided string
}

var backendStoreType = map[string]string{"memory": "MemoryStore", "sqlite": "SQLiteStore", "postgres": "PostgresStore"}

func (p *Program) memoryTransitions() []Trans {
	if p.memTrans != nil {
		return p.memTrans
	}
	sf := newStateFlow(p, "MemoryStore")
	sf.Run()
	p.memFlow = sf
	var out []Trans
	counts := map[string]int{}
	for i := range sf.Events {
		e := &sf.Events[i]
		if e.Kind == "lease-delete" {
			continue
		}
		t := Trans{Backend: "memory", Root: e.Root, Kind: e.Kind, From: e.From, HasFrom: true, Pos: p.InstrPos(e.Instr), Chain: e.Chain, Ev: e}
		if e.Kind == "store" {
			t.To = strings.Trim(e.ToStr, "{}")
		}
		via := ""
		if i := strings.Index(e.Chain, " > "); i >= 0 {
			via = " via " + strings.ReplaceAll(e.Chain[i+3:], " > ", ">")
		}
		base := fmt.Sprintf("memory.%s:%s->%s%s", e.Root, e.Kind, t.To, via)
		counts[base]++
		if counts[base] > 1 {
			base += fmt.Sprintf("#%d", counts[base])
		}
		t.Key = base
		out = append(out, t)
	}
	p.memTrans = out
	return out
}

var sqMarker = regexp.MustCompile(`§(\d+)§`)

// constList resolves an operand of a WHERE conjunct to string constants.
func (m *SQLModel) constList(s *SQLStmt, operand string) ([]string, bool) {
	operand = strings.TrimSpace(operand)
	if strings.HasPrefix(operand, "'") && strings.HasSuffix(operand, "'") && len(operand) >= 2 {
		return []string{operand[1 : len(operand)-1]}, true
	}
	mm := sqMarker.FindStringSubmatch(operand)
	if mm == nil || mm[0] != operand {
		return nil, false
	}
	k, _ := strconv.Atoi(mm[1])
	if k >= len(s.B.exprs) {
		return nil, false
	}
	return m.exprConsts(s.B.exprs[k])
}

func (m *SQLModel) exprConsts(ex ast.Expr) ([]string, bool) {
	info := m.ev.info
	if tv, ok := info.Types[ex]; ok && tv.Value != nil && tv.Value.Kind() == constant.String {
		return []string{constant.StringVal(tv.Value)}, true
	}
	switch x := ex.(type) {
	case *ast.ParenExpr:
		return m.exprConsts(x.X)
	case *ast.CompositeLit:
		var out []string
		for _, el := range x.Elts {
			vs, ok := m.exprConsts(el)
			if !ok {
				return nil, false
			}
			out = append(out, vs...)
		}
		return out, len(out) > 0
	case *ast.CallExpr:
		// pq.Array([]string{…}) and similar single-argument wrappers
		if len(x.Args) == 1 {
			return m.exprConsts(x.Args[0])
		}
	}
	return nil, false
}

var (
	reStateEq  = regexp.MustCompile(`(?i)^state\s*=\s*([^\s()]+)$`)
	reStateIn  = regexp.MustCompile(`(?i)^state\s+IN\s*\((.+)\)$`)
	reStateAny = regexp.MustCompile(`(?i)^state\s*=\s*ANY\s*\(\s*(.+?)\s*\)$`)
	reSubState = regexp.MustCompile(`(?i)WHERE\s+state\s*=\s*([^\s()]+)`)
)

// whereStateSet extracts the state guard of a statement.
func (m *SQLModel) whereStateSet(s *SQLStmt) (set sset, has bool, undecided string) {
	conj := append([]string{}, s.St.where...)
	for _, w := range conj {
		w = strings.TrimPrefix(w, "cte:")
		var ops []string
		switch {
		case reStateAny.MatchString(w):
			ops = []string{reStateAny.FindStringSubmatch(w)[1]}
		case reStateEq.MatchString(w):
			ops = []string{reStateEq.FindStringSubmatch(w)[1]}
		case reStateIn.MatchString(w):
			ops = strings.Split(reStateIn.FindStringSubmatch(w)[1], ",")
		case strings.Contains(strings.ToUpper(w), "SELECT") && reSubState.MatchString(w):
			ops = []string{reSubState.FindStringSubmatch(w)[1]}
		default:
			continue
		}
		has = true
		var acc sset
		for _, op := range ops {
			vs, ok := m.constList(s, op)
			if !ok {
				return ssTop, true, "state operand not constant: " + m.R(s, op)
			}
			for _, v := range vs {
				acc |= ssOf(v)
			}
		}
		if set == 0 {
			set = acc
		} else {
			set &= acc
		}
	}
	if !has {
		return ssTop, false, ""
	}
	return set, true, ""
}

// sqlTransitions lists the queue_items mutation statements of one backend,
// one entry per (statement, root operation that reaches it).
func (p *Program) sqlTransitions(backend string) []Trans {
	if t, ok := p.sqlTrans[backend]; ok {
		return t
	}
	m := p.SQL()
	typeName := backendStoreType[backend]
	roots := map[string]map[*ssa.Function]bool{}
	var rootNames []string
	for _, fn := range p.MethodsOf("queue", typeName) {
		if token.IsExported(fn.Name()) {
			roots[fn.Name()] = p.Reach(fn)
			rootNames = append(rootNames, fn.Name())
		}
	}
	sort.Strings(rootNames)
	var out []Trans
	for _, s := range m.Stmts {
		if s.Backend != backend || !s.IsMutation() || s.Table() != "queue_items" {
			continue
		}
		t := Trans{Backend: backend, Pos: s.Pos, Stmt: s}
		switch s.Verb() {
		case "INSERT":
			t.Kind = "insert"
		case "DELETE":
			t.Kind = "delete"
		case "UPDATE":
			t.Kind = "touch"
			if rhs, ok := s.St.set["state"]; ok {
				t.Kind = "store"
				if vs, ok := m.constList(s, rhs); ok && len(vs) == 1 {
					t.To = vs[0]
				} else {
					t.Undecided = "SET state operand not constant: " + m.R(s, rhs)
				}
			}
			for col := range s.St.set {
				t.SetCols = append(t.SetCols, col)
			}
			sort.Strings(t.SetCols)
		}
		if t.Kind != "insert" {
			set, has, und := m.whereStateSet(s)
			t.From, t.HasFrom = set, has
			if und != "" {
				t.Undecided = und
			}
		}
		if len(s.Undecided) > 0 {
			t.Undecided = strings.Join(s.Undecided, "; ")
		}
		n := 0
		for _, rn := range rootNames {
			if s.Fn != nil && roots[rn][s.Fn] {
				tt := t
				tt.Root = rn
				tt.Chain = rn
				if s.Fn.Name() != rn {
					tt.Chain = rn + " > " + s.Fn.Name()
				}
				tt.Key = m.Key(s) + "@" + rn
				out = append(out, tt)
				n++
			}
		}
		if n == 0 {
			t.Root = "?"
			t.Key = m.Key(s) + "@unreached"
			out = append(out, t)
		}
	}
	if p.sqlTrans == nil {
		p.sqlTrans = map[string][]Trans{}
	}
	p.sqlTrans[backend] = out
	return out
}

// ---- the documented machine, per entry operation -------------------------

type transPat struct {
	Kind string
	From sset // maximal from-set
	To   string
	Name string
}

var (
	patInsert  = transPat{"insert", 0, "", "insert"}
	patLease   = transPat{"store", ssParse("queued"), "leased", "lease"}
	patExpire  = transPat{"store", ssParse("leased"), "queued", "expire/nack"}
	patAckKeep = transPat{"store", ssParse("leased"), "delivered", "ack(retain)"}
	patAckDel  = transPat{"delete", ssParse("leased"), "", "ack(remove)"}
	patDead    = transPat{"store", ssParse("leased"), "dead", "dead-letter"}
	patCancel  = transPat{"store", ssParse("queued", "leased", "dead"), "canceled", "cancel"}
	patRequeue = transPat{"store", ssParse("dead", "canceled"), "queued", "requeue"}
	patResume  = transPat{"store", ssParse("canceled"), "queued", "resume"}
	patDLQReq  = transPat{"store", ssParse("dead"), "queued", "dlq-requeue"}
	patDLQDel  = transPat{"delete", ssParse("dead"), "", "dlq-delete"}
	patPrune   = transPat{"delete", ssParse("queued", "dead", "delivered"), "", "prune/drop-oldest"}
	patExtend  = transPat{"touch", ssParse("leased"), "", "extend"}
)

// opPatterns: which transitions an entry operation owns (besides prune, which
// every operation may trigger, and lease expiry for operations that present or
// sweep leases).
var opPatterns = map[string][]transPat{
	"Enqueue":                 {patInsert},
	"EnqueueBatch":            {patInsert},
	"Dequeue":                 {patLease, patExpire},
	"Ack":                     {patAckKeep, patAckDel, patExpire},
	"AckBatch":                {patAckKeep, patAckDel, patExpire},
	"Nack":                    {patExpire},
	"NackBatch":               {patExpire},
	"MarkDead":                {patDead, patExpire},
	"MarkDeadBatch":           {patDead, patExpire},
	"Extend":                  {patExtend, patExpire},
	"CancelMessages":          {patCancel},
	"CancelMessagesByFilter":  {patCancel},
	"RequeueMessages":         {patRequeue},
	"RequeueMessagesByFilter": {patRequeue},
	"ResumeMessages":          {patResume},
	"ResumeMessagesByFilter":  {patResume},
	"RequeueDead":             {patDLQReq},
	"DeleteDead":              {patDLQDel},
}

// matchTransition: which documented edge (if any) the construct is, for its root.
func matchTransition(t Trans) (string, bool) {
	pats := append([]transPat{patPrune}, opPatterns[t.Root]...)
	for _, pt := range pats {
		if pt.Kind != t.Kind || pt.To != t.To {
			continue
		}
		if pt.Kind == "insert" {
			return pt.Name, true
		}
		if !t.HasFrom || t.From == ssTop {
			continue
		}
		if t.From&^pt.From == 0 {
			return pt.Name, true
		}
	}
	return "", false
}
