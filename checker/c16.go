package main

import (
	"fmt"
	"go/token"
	"go/types"
	"sort"
	"strings"

	"golang.org/x/tools/go/ssa"
)

func init() { register("C16", checkC16) }

func isGlobalLoad(v ssa.Value, name string) bool {
	for {
		if mi, ok := v.(*ssa.MakeInterface); ok {
			v = mi.X
			continue
		}
		if ci, ok := v.(*ssa.ChangeInterface); ok {
			v = ci.X
			continue
		}
		break
	}
	u, ok := v.(*ssa.UnOp)
	if !ok {
		return false
	}
	g, ok := u.X.(*ssa.Global)
	return ok && g.Name() == name
}

// policyModel: base policy functions (wrap ErrPolicyDenied directly) and the enforcing closure over callers.
type policyModel struct {
	ctors map[*ssa.Function]bool // denial constructors (single-block functions returning Errorf("%w…", ErrPolicyDenied, …))
	base      map[*ssa.Function]bool
	enforcing map[*ssa.Function]bool
}

func (p *Program) policyModel() *policyModel {
	m := &policyModel{base: map[*ssa.Function]bool{}, enforcing: map[*ssa.Function]bool{}}
	fns := p.FuncsInPkg("dispatcher")
	wrapsSentinel := func(ci ssa.CallInstruction) bool {
		if elems, ok := errorfElems(ci); ok {
			for _, e := range elems {
				if isGlobalLoad(e, "ErrPolicyDenied") {
					return true
				}
			}
		}
		return false
	}
	// denial constructors: functions returning only an error, every return of which is such an Errorf
	ctors := map[*ssa.Function]bool{}
	for _, fn := range fns {
		rs := fn.Signature.Results()
		if rs.Len() != 1 || !types.Identical(rs.At(0).Type(), types.Universe.Lookup("error").Type()) {
			continue
		}
		all, n := true, 0
		for _, r := range returnsOf(fn) {
			n++
			call, ok := r.Results[0].(*ssa.Call)
			if !ok || !calleeIs(call, "fmt", "", "Errorf") || !wrapsSentinel(call) {
				all = false
			}
		}
		if all && n > 0 && len(fn.Blocks) == 1 {
			ctors[fn] = true
		}
	}
	m.ctors = ctors
	for _, fn := range fns {
		if ctors[fn] {
			continue
		}
		direct := len(allCalls(fn, func(ci ssa.CallInstruction) bool { return calleeIs(ci, "fmt", "", "Errorf") && wrapsSentinel(ci) })) > 0
		viaCtor := len(allCalls(fn, func(ci ssa.CallInstruction) bool { return ctors[ci.Common().StaticCallee()] })) > 0
		if direct || viaCtor {
			m.base[fn] = true
			m.enforcing[fn] = true
		}
	}
	changed := true
	for changed {
		changed = false
		for _, fn := range fns {
			if m.enforcing[fn] || fn.Signature.Results().Len() == 0 {
				continue
			}
			res := fn.Signature.Results()
			if !types.Identical(res.At(res.Len()-1).Type(), types.Universe.Lookup("error").Type()) {
				continue
			}
			calls := allCalls(fn, func(ci ssa.CallInstruction) bool {
				f := ci.Common().StaticCallee()
				return f != nil && m.enforcing[f]
			})
			if len(calls) == 0 {
				continue
			}
			okE, _, _ := GuardEdges(fn, calls, ErrNil)
			all := true
			nNil := 0
			for _, r := range returnsOf(fn) {
				k := errResultKind(r)
				if k != "nil" && k != "maybe" {
					continue
				}
				nNil++
				// the callee's verdict returned directly
				direct := false
				o, _ := origin(r.Results[len(r.Results)-1])
				for _, cc := range calls {
					if cv, ok := cc.(ssa.Value); ok && cv == o {
						direct = true
					}
				}
				if direct {
					continue
				}
				if okp, _ := p.MustPass(fn, r, okE); !okp {
					all = false
				}
			}
			if all && nNil > 0 {
				m.enforcing[fn] = true
				changed = true
			}
		}
	}
	return m
}

func checkC16(c *Ctx) {
	p := c.P
	c.Rule("C16.R1", "check before send: every call in package dispatcher that reaches (*http.Client).Do is dominated by the err==nil edge of a policy-enforcing call (a function whose every nil return is the verdict of the policy function) on the URL the request is built from")
	c.Rule("C16.R2", "redirects: the deliverer constructor assigns Client.CheckRedirect on every path to a function that either always returns ErrUseLastResponse or returns nil only behind the policy check of the hop URL; HTTPDeliverer values are built only by that constructor")
	c.Rule("C16.R3", "the policy function applies every clause: denials for bad scheme, https_only, empty host, disallowed resolved IP (dns_rebind_protection), deny match and allowlist miss all exist, deny is evaluated before allow, all policy fields are read; the address-class predicate is true only behind the false edges of loopback/link-local/multicast/unspecified/private and the true edge of global-unicast")
	c.Rule("C16.R4", "policy wiring is complete: the EgressPolicy built at start-up sets every field and the rule mapper copies every field of EgressRule")
	c.Rule("C16.R5", "denial is preserved: wherever the verdict of a policy-enforcing function is re-wrapped with fmt.Errorf the verb for it is %w (errors.Is(err, ErrPolicyDenied) keeps classifying it as policy_denied, no retry)")
	pm := p.policyModel()
	c.Count("C16.R1.base_policy_functions", len(pm.base))
	c.Count("C16.R1.enforcing_functions", len(pm.enforcing))
	if len(pm.base) == 0 {
		c.Fail("C16.R1", "dispatcher:policy-function", "", "no function wraps ErrPolicyDenied")
		return
	}
	isDo := func(ci ssa.CallInstruction) bool {
		return calleeIs(ci, "net/http", "Client", "Do") || (ci.Common().IsInvoke() && ci.Common().Method.Name() == "RoundTrip")
	}
	// ---- R1 ----
	nDo := 0
	for _, fn := range p.FuncsInPkg("dispatcher") {
		if fn.Parent() == nil {
			// helpers of the package (the one that builds the request, say) are part of the sending function; the
			// enforcing functions stay calls
			fn = p.ViewKeeping(fn, func(callee *ssa.Function) bool { return pm.enforcing[callee] })
		}
		for _, do := range allCalls(fn, isDo) {
			if len(p.InlinedFrom(do)) > 0 {
				continue // decided in the view of the function the send belongs to
			}
			nDo++
			key := "dispatcher." + fn.Name() + ":Client.Do"
			calls := allCalls(fn, func(ci ssa.CallInstruction) bool {
				f := ci.Common().StaticCallee()
				return f != nil && pm.enforcing[f]
			})
			okE, _, _ := GuardEdges(fn, calls, ErrNil)
			okp, path := p.MustPass(fn, do, okE)
			if okp && len(okE) > 0 {
				c.Ok("C16.R1", key+":behind-policy-ok", p.InstrPos(do), "send only behind the err==nil edge of "+calleeNames(calls))
			} else {
				c.Fail("C16.R1", key+":behind-policy-ok", p.InstrPos(do), "a request can be sent without the egress policy having allowed the URL on this call (no enforcing check dominates the send)", path...)
			}
			// same URL: the request sent derives from the URL value that was checked
			sameURL := false
			for _, cc := range calls {
				for _, a := range cc.Common().Args {
					if b, ok := a.Type().Underlying().(*types.Basic); ok && b.Kind() == types.String {
						as := sourcesString(sourcesOf(a))
						for _, nr := range allCalls(fn, func(ci ssa.CallInstruction) bool { return calleeIs(ci, "net/http", "", "NewRequestWithContext") }) {
							if sourcesString(sourcesOf(nr.Common().Args[2])) == as {
								sameURL = true
							}
						}
					}
				}
			}
			c.Check(sameURL, "C16.R1", key+":checked-url-is-sent-url", p.InstrPos(do), "the URL checked is the URL the request is built from", "the URL handed to the policy check is not the one the request is built from")
		}
	}
	c.Floor("C16.R1", "send_sites", nDo, 1)

	// ---- R2 ----
	var ctor *ssa.Function
	for _, fn := range p.SrcFuncs {
		if !IsModuleFunc(fn) {
			continue
		}
		for _, b := range fn.Blocks {
			for _, ins := range b.Instrs {
				if a, ok := ins.(*ssa.Alloc); ok && qualTypeName(a.Type()) == "dispatcher.HTTPDeliverer" {
					if ctor != nil && ctor != fn {
						c.Fail("C16.R2", "who-may-construct:dispatcher.HTTPDeliverer@"+FuncName(fn), p.InstrPos(a), "an HTTPDeliverer is built outside its constructor (CheckRedirect may be left at the library default, which follows redirects unchecked)")
					}
					if ctor == nil {
						ctor = fn
					}
				}
			}
		}
	}
	if ctor == nil {
		c.Fail("C16.R2", "dispatcher:HTTPDeliverer-constructor", "", "no constructor found")
	} else {
		c.Ok("C16.R2", "who-may-construct:dispatcher.HTTPDeliverer", p.Pos(ctor.Pos()), "built only in "+FuncName(ctor))
		var stores []*ssa.Store
		for _, b := range ctor.Blocks {
			for _, ins := range b.Instrs {
				if st, ok := ins.(*ssa.Store); ok {
					if fa, ok := st.Addr.(*ssa.FieldAddr); ok {
						if tn, f, _ := fieldAddrName(fa); tn == "Client" && f == "CheckRedirect" {
							stores = append(stores, st)
						}
					}
				}
			}
		}
		// every return passes one of the stores
		var through []ssa.Instruction
		for _, st := range stores {
			through = append(through, st)
		}
		okAll := len(stores) > 0
		for _, r := range returnsOf(ctor) {
			if okp, _ := p.MustPassInstr(ctor, r, through); !okp {
				okAll = false
			}
		}
		c.Check(okAll, "C16.R2", FuncName(ctor)+":CheckRedirect-assigned-on-every-path", p.Pos(ctor.Pos()), fmt.Sprintf("%d assignment(s) cover every return", len(stores)), "the constructor can return a deliverer whose client follows redirects with the library default")
		for i, st := range stores {
			for _, t := range funcValueTargets(st.Val, 0) {
				t = unwrapBound(t)
				key := fmt.Sprintf("%s:CheckRedirect#%d=%s", FuncName(ctor), i+1, t.Name())
				never := true
				for _, r := range returnsOf(t) {
					if !isGlobalLoad(r.Results[0], "ErrUseLastResponse") {
						never = false
					}
				}
				if never {
					c.Ok("C16.R2", key, p.Pos(t.Pos()), "never follows a redirect (always ErrUseLastResponse)")
					continue
				}
				t := p.ViewKeeping(t, func(callee *ssa.Function) bool { return pm.enforcing[callee] })
				calls := allCalls(t, func(ci ssa.CallInstruction) bool {
					f := ci.Common().StaticCallee()
					return f != nil && pm.enforcing[f]
				})
				okE, _, _ := GuardEdges(t, calls, ErrNil)
				okHop := len(calls) > 0
				for _, r := range returnsOf(t) {
					// the policy verdict returned as it is: nil exactly when the policy allowed the hop
					direct := false
					if o, _ := origin(r.Results[len(r.Results)-1]); o != nil {
						for _, cc := range calls {
							if cv, ok := cc.(ssa.Value); ok && cv == o {
								direct = true
							}
						}
					}
					if direct {
						continue
					}
					if k := errResultKind(r); k == "nil" || k == "maybe" {
						if okp, _ := p.MustPass(t, r, okE); !okp || len(okE) == 0 {
							okHop = false
						}
					}
				}
				// the hop URL: an argument mentions req.URL
				hopURL := false
				for _, cc := range calls {
					for _, a := range cc.Common().Args {
						if valueMentionsField(a, "URL", 0) {
							hopURL = true
						}
					}
				}
				c.Check(okHop && hopURL, "C16.R2", key, p.Pos(t.Pos()), "a hop is followed only behind the policy check of the hop's URL", "a redirect hop can be followed without the policy check of its URL")
			}
		}
	}

	// ---- R3 ----
	// the policy function(s): the outermost functions that deny (a helper that denies one clause is part of the
	// function it is expanded into); helpers of the package are part of it, except boolean predicates (the
	// address-class predicate, the rule matcher), which the clauses refer to by role
	keepPred := func(callee *ssa.Function) bool {
		rs := callee.Signature.Results()
		return rs.Len() == 1 && types.Identical(rs.At(0).Type(), types.Typ[types.Bool])
	}
	views := map[*ssa.Function]*ssa.Function{}
	for fn := range pm.base {
		views[fn] = p.ViewKeeping(fn, keepPred)
	}
	for _, fn := range sortedFuncs(pm.base) {
		nested := false
		for other, v := range views {
			if other != fn && p.InlinedCallees(v)[fn] > 0 {
				nested = true
			}
		}
		if nested {
			continue
		}
		// only functions that decide over a policy value
		hasPolicy := false
		for _, pr := range fn.Params {
			if namedName(pr.Type()) == "EgressPolicy" {
				hasPolicy = true
			}
		}
		if !hasPolicy {
			continue
		}
		checkPolicyClauses(c, "C16.R3", views[fn])
	}
	checkAddressClassPredicate(c, "C16.R3")
	c.Rule("C16.R7", "canonical addresses: every address that reaches a CIDR prefix match — from the resolver or from an IP literal in the URL — is the result of Addr.Unmap() or sits on an edge where it is known not to be IPv4(-mapped); followed through helper results, parameters, merges and slice elements")
	checkCanonicalAddresses(c, "C16.R7")
	checkPolicyWiring(c, "C16.R4")
	checkSentinelPreserved(c, "C16.R5", pm)
	checkErrChainPreserved(c, "C16.R5")
}

func calleeNames(cs []ssa.CallInstruction) string {
	var out []string
	for _, c := range cs {
		if f := c.Common().StaticCallee(); f != nil {
			out = append(out, f.Name())
		}
	}
	sort.Strings(out)
	return strings.Join(dedup(out), ",")
}

// checkPolicyClauses: classify each denial return of the policy function by the guards that lead to it.
func checkPolicyClauses(c *Ctx, rule string, fn *ssa.Function) {
	p := c.P
	name := "dispatcher." + fn.Name()
	type clause struct {
		name string
		has  bool
	}
	found := map[string]bool{}
	policyFields := map[string]bool{}
	// the names the function gives to its policy and URL parameters, and the address-class predicate (by signature)
	polName, urlName, ipPred := "policy", "u", "isAllowedIP"
	for _, pr := range fn.Params {
		if namedName(pr.Type()) == "EgressPolicy" {
			polName = pr.Name()
		}
		if pt, ok := pr.Type().(*types.Pointer); ok && namedName(pt.Elem()) == "URL" {
			urlName = pr.Name()
		}
	}
	for _, g := range p.FuncsInPkg("dispatcher") {
		ps, rs := g.Signature.Params(), g.Signature.Results()
		if ps.Len() == 1 && rs.Len() == 1 && isIPAddrType(ps.At(0).Type()) && types.Identical(rs.At(0).Type(), types.Typ[types.Bool]) {
			ipPred = g.Name()
		}
	}
	canon := func(sym string) string {
		if strings.HasPrefix(sym, polName+".") {
			return "policy." + strings.TrimPrefix(sym, polName+".")
		}
		return sym
	}
	for _, b := range fn.Blocks {
		for _, ins := range b.Instrs {
			if v, ok := ins.(ssa.Value); ok {
				if sym, ok := symOf(v); ok && strings.HasPrefix(canon(sym), "policy.") {
					policyFields[strings.SplitN(strings.TrimPrefix(canon(sym), "policy."), ".", 2)[0]] = true
				}
			}
		}
	}
	var denyCall, allowCall ssa.CallInstruction
	for _, pa := range enumeratePaths(fn.Blocks[0], 4000) {
		if errResultKind(pa.Ret) == "nil" {
			continue
		}
		// is it a denial (wraps ErrPolicyDenied)?
		o, _ := origin(pa.Ret.Results[len(pa.Ret.Results)-1])
		call, ok := o.(*ssa.Call)
		if !ok || !calleeIs(call, "fmt", "", "Errorf") {
			continue
		}
		// guards on the path (last ones matter)
		for sym, val := range pa.State.bools {
			switch {
			case strings.HasSuffix(sym, ".HTTPSOnly") && val:
				if _, neq := pa.State.strNeq[schemeSym(pa)]; neq || true {
					// https_only clause: HTTPSOnly true and scheme != https on the path
				}
			}
		}
		desc := pathDescribe(pa)
		desc = strings.ReplaceAll(desc, urlName+"!=nil=false", "u==nil")
		desc = strings.ReplaceAll(desc, polName+".", "policy.")
		switch {
		case strings.Contains(desc, "u==nil"):
			found["nil-url"] = true
		case strings.Contains(desc, "HTTPSOnly=true") && strings.Contains(desc, `!="https"`) && !strings.Contains(desc, "Hostname"):
			found["https-only"] = true
		case strings.Contains(desc, `Scheme)!="http"`) && strings.Contains(desc, `Scheme)!="https"`) && !strings.Contains(desc, "HTTPSOnly"):
			found["scheme"] = true
		case strings.Contains(desc, `=="" `) || strings.HasSuffix(desc, `==""`):
			if !strings.Contains(desc, "DNSRebindProtection=") {
				found["empty-host"] = true
			}
		}
		if strings.Contains(desc, "DNSRebindProtection=true") && containsCallFalse(pa, ipPred, p) {
			found["disallowed-ip"] = true
		}
	}
	// deny / allow: matcher calls whose true/false edges lead to denials
	for _, ci := range allCalls(fn, func(ci ssa.CallInstruction) bool {
		f := ci.Common().StaticCallee()
		if f == nil || !IsModuleFunc(f) {
			return false
		}
		for _, a := range ci.Common().Args {
			if sym, ok := symOf(a); ok && (canon(sym) == "policy.Deny" || canon(sym) == "policy.Allow") {
				return true
			}
		}
		return false
	}) {
		for _, a := range ci.Common().Args {
			sym, _ := symOf(a)
			sym = canon(sym)
			okE, failE, _ := GuardEdges(fn, []ssa.CallInstruction{ci}, BoolTrue)
			if sym == "policy.Deny" {
				denyCall = ci
				if edgesLeadToDenial(okE) {
					found["deny-match"] = true
				}
			}
			if sym == "policy.Allow" {
				allowCall = ci
				if edgesLeadToDenial(failE) {
					found["allow-miss"] = true
				}
			}
		}
	}
	for _, cl := range []string{"scheme", "https-only", "empty-host", "disallowed-ip", "deny-match", "allow-miss"} {
		c.Check(found[cl], rule, name+":clause:"+cl, p.Pos(fn.Pos()), "denial present and guarded", "the policy function has no denial for the clause "+cl)
	}
	if denyCall != nil && allowCall != nil {
		c.Check(reachableFrom(denyCall, allowCall) && !reachableFrom(allowCall, denyCall), rule, name+":deny-before-allow", p.InstrPos(denyCall), "deny rules are evaluated before the allowlist", "the allowlist is evaluated before deny rules (deny must win)")
	}
	var missing []string
	if T := p.Named("dispatcher", "EgressPolicy"); T != nil {
		st := T.Underlying().(*types.Struct)
		for i := 0; i < st.NumFields(); i++ {
			f := st.Field(i).Name()
			if f == "Redirects" {
				continue // consumed by the constructor (R2)
			}
			if !policyFields[f] {
				missing = append(missing, f)
			}
		}
	}
	c.Check(len(missing) == 0, rule, name+":reads-every-policy-field", p.Pos(fn.Pos()), "HTTPSOnly, DNSRebindProtection, Allow, Deny all read", "policy fields never consulted: "+strings.Join(missing, ","))
}

func schemeSym(pa predPath) string { return "" }

func pathDescribe(pa predPath) string {
	var parts []string
	for s, v := range pa.State.bools {
		parts = append(parts, fmt.Sprintf("%s=%v", s, v))
	}
	for s, v := range pa.State.strEq {
		parts = append(parts, fmt.Sprintf("%s==%q", s, v))
	}
	for s, vs := range pa.State.strNeq {
		for _, v := range vs {
			parts = append(parts, fmt.Sprintf("%s!=%q", s, v))
		}
	}
	sort.Strings(parts)
	d := strings.Join(parts, " ")
	d = strings.ReplaceAll(d, "u!=nil=false", "u==nil")
	return d
}

func containsCallFalse(pa predPath, callee string, p *Program) bool {
	for s, v := range pa.State.bools {
		if strings.HasPrefix(s, callee+"(") && !v {
			return true
		}
	}
	for _, u := range pa.Unknown {
		_ = u
	}
	// the call's argument may be a loop variable without a symbol: look for the If on the path
	for bi, b := range pa.Blocks {
		if len(b.Instrs) == 0 {
			continue
		}
		if ifi, ok := b.Instrs[len(b.Instrs)-1].(*ssa.If); ok {
			a := condAtom(ifi.Cond, true)
			if call, ok := a.X.(*ssa.Call); ok {
				if f := call.Call.StaticCallee(); f != nil && f.Name() == callee {
					return true
				}
				// "some address fails the predicate" spelled slices.IndexFunc(ips, notAllowed) >= 0 /
				// slices.ContainsFunc(ips, notAllowed), with notAllowed the negation of the predicate
				if g := call.Call.StaticCallee(); g != nil && g.Origin() != nil && g.Origin().Pkg != nil && g.Origin().Pkg.Pkg.Path() == "slices" && len(call.Call.Args) == 2 && bi+1 < len(pa.Blocks) {
					name := g.Origin().Name()
					taken := pa.Blocks[bi+1] == b.Succs[0]
					at := condAtom(ifi.Cond, taken)
					found := false
					switch name {
					case "ContainsFunc":
						found = isBoolTrue(at.Y) && at.Op == token.EQL
					case "IndexFunc":
						if n, ok := intConst(at.Y); ok {
							found = (at.Op == token.GEQ && n == 0) || (at.Op == token.GTR && n == -1) || (at.Op == token.NEQ && n == -1)
						}
					}
					if found {
						for _, t := range funcValueTargets(call.Call.Args[1], 0) {
							if negatesPredicate(p, t, callee) {
								return true
							}
						}
					}
				}
			}
		}
	}
	return false
}

// negatesPredicate: f(x) returns !pred(x) on every path.
func negatesPredicate(p *Program, f *ssa.Function, pred string) bool {
	if f == nil || len(f.Blocks) == 0 || len(f.Params) != 1 {
		return false
	}
	n := 0
	for _, r := range returnsOf(f) {
		if len(r.Results) != 1 {
			return false
		}
		u, ok := r.Results[0].(*ssa.UnOp)
		if !ok || u.Op != token.NOT {
			return false
		}
		call, ok := u.X.(*ssa.Call)
		if !ok || len(call.Call.Args) != 1 || call.Call.Args[0] != ssa.Value(f.Params[0]) {
			return false
		}
		g := call.Call.StaticCallee()
		if g == nil || g.Name() != pred {
			return false
		}
		n++
	}
	return n > 0
}

// edgesLeadToDenial: the edge's target block returns an ErrPolicyDenied-wrapping error.
func edgesLeadToDenial(es []Edge) bool {
	for _, e := range es {
		par := reach([]*ssa.BasicBlock{e.To()}, nil, nil)
		if len(par) > 3 {
			continue
		}
		for b := range par {
			for _, ins := range b.Instrs {
				if ci, ok := ins.(ssa.CallInstruction); ok && calleeIs(ci, "fmt", "", "Errorf") {
					if elems, ok := errorfElems(ci); ok {
						for _, el := range elems {
							if isGlobalLoad(el, "ErrPolicyDenied") {
								return true
							}
						}
					}
				}
			}
		}
	}
	return false
}

func checkAddressClassPredicate(c *Ctx, rule string) {
	p := c.P
	// predicate: func(net.IP) bool in dispatcher calling the net.IP class methods
	for _, fn := range p.FuncsInPkg("dispatcher") {
		ps, rs := fn.Signature.Params(), fn.Signature.Results()
		if ps.Len() != 1 || rs.Len() != 1 || !isIPAddrType(ps.At(0).Type()) || !types.Identical(rs.At(0).Type(), types.Typ[types.Bool]) {
			continue
		}
		classCalls := allCalls(fn, func(ci ssa.CallInstruction) bool {
			f := ci.Common().StaticCallee()
			return f != nil && f.Pkg != nil && (f.Pkg.Pkg.Path() == "net" || f.Pkg.Pkg.Path() == "net/netip") && strings.HasPrefix(f.Name(), "Is") && f.Name() != "IsValid"
		})
		if len(classCalls) < 3 {
			continue
		}
		name := "dispatcher." + fn.Name()
		wantFalse := []string{"IsLoopback", "IsLinkLocalUnicast", "IsLinkLocalMulticast", "IsMulticast", "IsUnspecified", "IsPrivate"}
		for _, r := range returnsOf(fn) {
			if !blockReturnsConstBool(r.Block(), true) {
				continue
			}
			for _, m := range wantFalse {
				calls := allCalls(fn, func(ci ssa.CallInstruction) bool { return calleeIs(ci, "net", "IP", m) || calleeIs(ci, "net/netip", "Addr", m) })
				_, failE, _ := GuardEdges(fn, calls, BoolTrue)
				okp, _ := p.MustPass(fn, r, failE)
				c.Check(okp && len(failE) > 0, rule, name+":true-only-if-not-"+m, p.InstrPos(r), "true only behind "+m+"()==false", "an address can be accepted without "+m+"() having been false")
			}
			calls := allCalls(fn, func(ci ssa.CallInstruction) bool {
				return calleeIs(ci, "net", "IP", "IsGlobalUnicast") || calleeIs(ci, "net/netip", "Addr", "IsGlobalUnicast")
			})
			okE, _, _ := GuardEdges(fn, calls, BoolTrue)
			okp, _ := p.MustPass(fn, r, okE)
			c.Check(okp && len(okE) > 0, rule, name+":true-only-if-IsGlobalUnicast", p.InstrPos(r), "true only behind IsGlobalUnicast()==true", "an address can be accepted without being global unicast")
		}
		return
	}
	c.Fail(rule, "dispatcher:address-class-predicate", "", "no func(net.IP) bool / func(netip.Addr) bool address-class predicate found")
}

func checkPolicyWiring(c *Ctx, rule string) {
	p := c.P
	for _, tn := range []string{"EgressPolicy", "EgressRule"} {
		T := p.Named("dispatcher", tn)
		if T == nil {
			c.Fail(rule, "dispatcher."+tn, "", "type not found")
			continue
		}
		st := T.Underlying().(*types.Struct)
		n := 0
		for _, fn := range p.FuncsInPkg("app") {
			for _, b := range fn.Blocks {
				for _, ins := range b.Instrs {
					a, ok := ins.(*ssa.Alloc)
					if !ok || qualTypeName(a.Type()) != "dispatcher."+tn {
						continue
					}
					fs := structFieldStores(a)
					if len(fs) == 0 {
						continue
					}
					n++
					var missing []string
					for i := 0; i < st.NumFields(); i++ {
						if _, ok := fs[st.Field(i).Name()]; !ok {
							missing = append(missing, st.Field(i).Name())
						}
					}
					// each value comes from the compiled config (a field load / helper of it), not a constant
					var consts []string
					for f, v := range fs {
						if _, isC := v.(*ssa.Const); isC {
							consts = append(consts, f)
						}
					}
					sort.Strings(consts)
					key := fmt.Sprintf("app.%s:%s-literal#%d", fn.Name(), tn, n)
					if tn == "EgressRule" {
						// a rule literal sets either the host form or the CIDR form; across all literals every field must be set somewhere
						c.Count(rule+".egress_rule_literals", 1)
						continue
					}
					c.Check(len(missing) == 0 && len(consts) == 0, rule, key, p.InstrPos(a), fmt.Sprintf("all %d fields set from the compiled configuration", st.NumFields()), fmt.Sprintf("policy literal leaves fields unset %v / constant %v: a configured rule would silently not be enforced", missing, consts))
				}
			}
		}
		if tn == "EgressPolicy" {
			c.Floor(rule, "egress_policy_literals", n, 1)
		} else {
			// union of fields set over all rule literals in the mapper
			set := map[string]bool{}
			for _, fn := range p.FuncsInPkg("app") {
				for _, b := range fn.Blocks {
					for _, ins := range b.Instrs {
						if a, ok := ins.(*ssa.Alloc); ok && qualTypeName(a.Type()) == "dispatcher."+tn {
							for f := range structFieldStores(a) {
								set[f] = true
							}
						}
					}
				}
			}
			var missing []string
			for i := 0; i < st.NumFields(); i++ {
				if !set[st.Field(i).Name()] {
					missing = append(missing, st.Field(i).Name())
				}
			}
			c.Check(len(missing) == 0 && n > 0, rule, "app:EgressRule-mapper-sets-every-field", "", fmt.Sprintf("%d rule literal(s) together set every field", n), "rule fields never set by the mapper: "+strings.Join(missing, ","))
		}
	}
}

// checkSentinelPreserved: C16.R5 / the clause C06 relies on.
func checkSentinelPreserved(c *Ctx, rule string, pm *policyModel) {
	p := c.P
	n := 0
	for _, fn := range p.FuncsInPkg("dispatcher") {
		calls := allCalls(fn, func(ci ssa.CallInstruction) bool {
			f := ci.Common().StaticCallee()
			return f != nil && pm.enforcing[f]
		})
		if len(calls) == 0 {
			continue
		}
		for _, ef := range allCalls(fn, func(ci ssa.CallInstruction) bool { return calleeIs(ci, "fmt", "", "Errorf") }) {
			format, _ := constString(ef.Common().Args[0])
			elems, ok := varargElems(ef.Common().Args[1])
			if !ok {
				continue
			}
			verbs := formatVerbs(format)
			for i, e := range elems {
				o, _ := origin(e)
				fromPolicy := false
				for _, cc := range calls {
					if cv, ok := cc.(ssa.Value); ok && cv == o {
						fromPolicy = true
					}
				}
				if !fromPolicy {
					continue
				}
				n++
				v := ""
				if i < len(verbs) {
					v = verbs[i]
				}
				c.Check(v == "w", rule, "dispatcher."+fn.Name()+":rewrap-keeps-sentinel", p.InstrPos(ef), "policy verdict re-wrapped with %w", fmt.Sprintf("the policy verdict is re-wrapped with %%%s: errors.Is(err, ErrPolicyDenied) no longer holds, so the denial is retried and dead-lettered as max_retries instead of policy_denied", v))
			}
		}
		// verdict returned/stored unchanged elsewhere is fine; count sites
		n += 0
	}
	// every denial in the base functions uses %w for the sentinel
	seenErrorf := map[ssa.Instruction]bool{}
	for _, fn := range sortedFuncs(pm.base) {
		fv := fn
		if fn.Parent() == nil {
			fv = p.View(fn)
		}
		for _, ef := range allCalls(fv, func(ci ssa.CallInstruction) bool { return calleeIs(ci, "fmt", "", "Errorf") }) {
			if src := p.SourceInstr(ef); seenErrorf[src] && len(p.InlinedFrom(ef)) > 0 {
				// the same constructor expanded at another site: count the site, the verb has been checked
			} else {
				seenErrorf[src] = true
			}
			format := formatPrefix(ef.Common().Args[0])
			elems, _ := errorfElems(ef)
			verbs := formatVerbs(format)
			for i, e := range elems {
				if isGlobalLoad(e, "ErrPolicyDenied") {
					n++
					v := ""
					if i < len(verbs) {
						v = verbs[i]
					}
					if v != "w" {
						c.Fail(rule, "dispatcher."+fn.Name()+":denial-wraps-sentinel", p.InstrPos(ef), "a denial formats ErrPolicyDenied with %"+v+" instead of %w")
					}
				}
			}
		}
	}
	c.Check(n >= 6, rule, "dispatcher:denials-wrap-ErrPolicyDenied", "", fmt.Sprintf("%d denial/re-wrap site(s), all with %%w", n), fmt.Sprintf("only %d denial sites found", n))
	// classification side: errors.Is(res.Err, ErrPolicyDenied) exists in the retry predicate and the reason selection (C06.R1/R2)
	nIs := 0
	for _, fn := range p.FuncsInPkg("dispatcher") {
		for _, ci := range allCalls(fn, func(ci ssa.CallInstruction) bool { return calleeIs(ci, "errors", "", "Is") }) {
			if isGlobalLoad(ci.Common().Args[1], "ErrPolicyDenied") {
				nIs++
			}
		}
	}
	c.Check(nIs >= 1, rule, "dispatcher:classification-uses-errors.Is", "", fmt.Sprintf("%d errors.Is(…, ErrPolicyDenied) test(s)", nIs), "the dispatcher no longer classifies denials with errors.Is(err, ErrPolicyDenied)")
	_ = token.NoPos
}

// formatVerbs: the verbs of a printf format, in order ("w", "q", "s", …).
func formatVerbs(f string) []string {
	var out []string
	for i := 0; i < len(f); i++ {
		if f[i] != '%' {
			continue
		}
		j := i + 1
		for j < len(f) && strings.ContainsRune("+-# 0123456789.[]*", rune(f[j])) {
			j++
		}
		if j < len(f) {
			if f[j] != '%' {
				out = append(out, string(f[j]))
			}
			i = j
		}
	}
	return out
}

// checkErrChainPreserved: every error stored into dispatcher.Result.Err keeps its chain — it is a raw error value, an
// fmt.Errorf that wraps each error argument with %w, or a helper all of whose returns are of these kinds. The dispatcher
// classifies a delivery by errors.Is(res.Err, ErrPolicyDenied); the sentinel arrives wrapped (by the policy function,
// by CheckRedirect inside *url.Error), so any flattening between the transport and Result.Err turns a denial into a
// retryable transport error.
func checkErrChainPreserved(c *Ctx, rule string) {
	p := c.P
	errIface := types.Universe.Lookup("error").Type().Underlying().(*types.Interface)
	isErr := func(t types.Type) bool { return types.Implements(t, errIface) }
	var preserving func(v ssa.Value, depth int, seen map[ssa.Value]bool) (bool, string)
	preserving = func(v ssa.Value, depth int, seen map[ssa.Value]bool) (bool, string) {
		if v == nil || seen[v] {
			return true, ""
		}
		seen[v] = true
		if depth > 6 {
			return false, "provenance too deep"
		}
		switch x := v.(type) {
		case *ssa.Const, *ssa.Parameter, *ssa.Global, *ssa.FreeVar:
			return true, ""
		case *ssa.MakeInterface:
			return preserving(x.X, depth+1, seen)
		case *ssa.ChangeInterface:
			return preserving(x.X, depth+1, seen)
		case *ssa.Phi:
			for _, e := range x.Edges {
				if ok, why := preserving(e, depth+1, seen); !ok {
					return false, why
				}
			}
			return true, ""
		case *ssa.Extract:
			return preserving(x.Tuple, depth+1, seen)
		case *ssa.UnOp:
			if al, ok := x.X.(*ssa.Alloc); ok {
				for _, ref := range *al.Referrers() {
					if st, ok := ref.(*ssa.Store); ok && st.Addr == al {
						if ok2, why := preserving(st.Val, depth+1, seen); !ok2 {
							return false, why
						}
					}
				}
			}
			return true, "" // field / global load of an error value: returned as is
		case *ssa.Alloc, *ssa.TypeAssert, *ssa.Field, *ssa.FieldAddr:
			return true, ""
		case *ssa.Call:
			g := x.Call.StaticCallee()
			if g == nil {
				return true, "" // dynamic call returning an error: raw
			}
			if g.Pkg != nil && g.Pkg.Pkg.Path() == "fmt" && g.Name() == "Errorf" {
				format, _ := constString(x.Call.Args[0])
				if cst, isC := x.Call.Args[1].(*ssa.Const); isC && cst.Value == nil {
					return true, "" // no arguments: a fresh error
				}
				elems, ok := varargElems(x.Call.Args[1])
				if !ok {
					// append(head, rest...) where rest is the enclosing constructor's variadic parameter and no call
					// site passes an error in it: the head is the whole story
					if head, okH := errorfElems(x); okH && variadicTailCarriesNoError(p, x) {
						elems, ok = head, true
						format = formatPrefix(x.Call.Args[0])
					}
				}
				if !ok {
					return false, "fmt.Errorf with a non-literal argument list at " + p.InstrPos(x)
				}
				verbs := formatVerbs(format)
				for i, e := range elems {
					inner := e
					if mi, ok := e.(*ssa.MakeInterface); ok {
						inner = mi.X
					}
					if ci, ok := e.(*ssa.ChangeInterface); ok {
						inner = ci.X
					}
					if !isErr(inner.Type()) {
						if at := errorTextSource(inner, 0); at != nil {
							return false, fmt.Sprintf("fmt.Errorf at %s is built from the text of another error (%s at %s) and not from the error", p.InstrPos(x), at.String(), p.InstrPos(at))
						}
						continue
					}
					vb := ""
					if i < len(verbs) {
						vb = verbs[i]
					}
					if vb != "w" {
						return false, fmt.Sprintf("fmt.Errorf at %s formats an error with %%%s instead of %%w", p.InstrPos(x), vb)
					}
				}
				return true, ""
			}
			if g.Pkg != nil && g.Pkg.Pkg.Path() == "errors" && g.Name() == "New" {
				// a fresh error is fine unless it is built from another error's text
				for _, s := range sourcesOf(x.Call.Args[0]) {
					if s.Kind == "call" && strings.Contains(s.Desc, ".Error") {
						return false, "errors.New(err.Error()) at " + p.InstrPos(x) + " drops the chain"
					}
				}
				return true, ""
			}
			if IsModuleFunc(g) && len(g.Blocks) > 0 {
				for _, r := range returnsOf(g) {
					for _, res := range r.Results {
						if !isErr(res.Type()) {
							continue
						}
						if ok, why := preserving(res, depth+1, seen); !ok {
							return false, why + " (in " + g.Name() + ")"
						}
					}
				}
				return true, ""
			}
			return true, "" // library call returning an error: raw
		}
		return true, ""
	}
	n := 0
	for _, fn := range p.FuncsInPkg("dispatcher") {
		for _, b := range fn.Blocks {
			for _, ins := range b.Instrs {
				st, ok := ins.(*ssa.Store)
				if !ok {
					continue
				}
				fa, ok := st.Addr.(*ssa.FieldAddr)
				if !ok {
					continue
				}
				tn, f, _ := fieldAddrName(fa)
				if tn != "Result" || f != "Err" {
					continue
				}
				n++
				ok2, why := preserving(st.Val, 0, map[ssa.Value]bool{})
				c.Check(ok2, rule, fmt.Sprintf("dispatcher.%s:Result.Err#%d keeps the error chain", fn.Name(), n), p.InstrPos(st),
					"raw error, %w wrap, or a helper returning those",
					"the error stored into Result.Err is flattened ("+why+"): errors.Is(res.Err, ErrPolicyDenied) no longer sees a denial raised on a redirect hop, so it is retried and dead-lettered as max_retries instead of policy_denied")
			}
		}
	}
	c.Floor(rule, "stores to Result.Err", n, 3)
}

// errorTextSource: the call of an error's Error() method that the (string) value v is computed from, if any —
// through conversions, concatenation, and calls that take it as an operand (strings.ToLower, Sprintf, …).
func errorTextSource(v ssa.Value, depth int) *ssa.Call {
	if v == nil || depth > 5 {
		return nil
	}
	errIface := types.Universe.Lookup("error").Type().Underlying().(*types.Interface)
	switch x := v.(type) {
	case *ssa.MakeInterface:
		return errorTextSource(x.X, depth+1)
	case *ssa.ChangeType:
		return errorTextSource(x.X, depth+1)
	case *ssa.Convert:
		return errorTextSource(x.X, depth+1)
	case *ssa.BinOp:
		if at := errorTextSource(x.X, depth+1); at != nil {
			return at
		}
		return errorTextSource(x.Y, depth+1)
	case *ssa.Phi:
		for _, e := range x.Edges {
			if at := errorTextSource(e, depth+1); at != nil {
				return at
			}
		}
	case *ssa.Call:
		if x.Call.IsInvoke() {
			if x.Call.Method.Name() == "Error" && types.Implements(x.Call.Value.Type(), errIface) {
				return x
			}
			return nil
		}
		if g := x.Call.StaticCallee(); g != nil && g.Name() == "Error" && g.Signature.Recv() != nil && types.Implements(g.Signature.Recv().Type(), errIface) {
			return x
		}
		for _, a := range x.Call.Args {
			if b, ok := a.Type().Underlying().(*types.Basic); ok && b.Info()&types.IsString != 0 {
				if at := errorTextSource(a, depth+1); at != nil {
					return at
				}
			}
		}
	}
	return nil
}

// errorfElems: the leading variadic operands of a fmt.Errorf call that are known — a literal list, or the literal
// head of append(head, rest...).
func errorfElems(ef ssa.CallInstruction) ([]ssa.Value, bool) {
	if len(ef.Common().Args) < 2 {
		return nil, false
	}
	arg := ef.Common().Args[1]
	if elems, ok := varargElems(arg); ok {
		return elems, true
	}
	if call, ok := arg.(*ssa.Call); ok {
		if bi, ok := call.Call.Value.(*ssa.Builtin); ok && bi.Name() == "append" && len(call.Call.Args) >= 1 {
			if elems, ok := varargElems(call.Call.Args[0]); ok {
				return elems, true
			}
		}
	}
	return nil, false
}

// formatPrefix: the constant text a format string is known to start with ("%w: " + reason → "%w: ").
func formatPrefix(v ssa.Value) string {
	if sv, ok := constString(v); ok {
		return sv
	}
	if bo, ok := v.(*ssa.BinOp); ok && bo.Op == token.ADD {
		left := formatPrefix(bo.X)
		if _, isConst := bo.X.(*ssa.Const); isConst {
			return left + formatPrefix(bo.Y)
		}
		return left
	}
	return ""
}

// variadicTailCarriesNoError: x is fmt.Errorf(f, append(head, tail...)...) where tail is the variadic parameter of
// the enclosing function, and at every call site of that function the operands bound to it are a literal list
// without error-typed values.
func variadicTailCarriesNoError(p *Program, x *ssa.Call) bool {
	app, ok := x.Call.Args[1].(*ssa.Call)
	if !ok || len(app.Call.Args) != 2 {
		return false
	}
	prm, ok := app.Call.Args[1].(*ssa.Parameter)
	if !ok {
		return false
	}
	fn := p.Orig(x.Parent())
	idx := -1
	for i, q := range fn.Params {
		if q == prm || q.Name() == prm.Name() && types.Identical(q.Type(), prm.Type()) {
			idx = i
		}
	}
	if idx < 0 || !fn.Signature.Variadic() || idx != len(fn.Params)-1 {
		return false
	}
	errT := types.Universe.Lookup("error").Type()
	sites := p.CallSitesOf(fn)
	if len(sites) == 0 {
		return false
	}
	for _, cs := range sites {
		args := cs.Common().Args
		if idx >= len(args) {
			return false
		}
		if cst, isC := args[idx].(*ssa.Const); isC && cst.Value == nil {
			continue // no variadic operands
		}
		elems, ok := varargElems(args[idx])
		if !ok {
			return false
		}
		for _, e := range elems {
			inner := e
			if mi, ok := e.(*ssa.MakeInterface); ok {
				inner = mi.X
			}
			if types.Implements(inner.Type(), errT.Underlying().(*types.Interface)) {
				return false
			}
		}
	}
	return true
}

// isIPAddrType: net.IP or netip.Addr.
func isIPAddrType(t types.Type) bool {
	s := t.String()
	return s == "net.IP" || s == "net/netip.Addr"
}
