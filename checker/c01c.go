package main

import (
	"fmt"
	"strings"

	"golang.org/x/tools/go/ssa"
)

// C01.R8 — store options receive the configuration values of their own name.
//
// The start-up glue hands compiled configuration to the queue stores through option constructors whose
// parameters share types (two Durations, two ints). An argument that carries the value of the *other* parameter
// type-checks and runs; with retention it makes the store prune acknowledged messages after `prune_interval`
// instead of `max_age`. Rule: for every call from package app to a queue.With* option, if an argument derives
// from configuration fields none of which matches its parameter's name while one matches another parameter of the
// same call, the arguments are crossed.

func normName(s string) string {
	s = strings.ToLower(s)
	var b strings.Builder
	for _, r := range s {
		if (r >= 'a' && r <= 'z') || (r >= '0' && r <= '9') {
			b.WriteRune(r)
		}
	}
	return b.String()
}

func nameMatches(param, field string) bool {
	a, b := normName(param), normName(field)
	return a != "" && b != "" && (strings.Contains(a, b) || strings.Contains(b, a))
}

func configFieldsOf(p *Program, v ssa.Value) []string {
	seen := map[string]bool{}
	var out []string
	var walk func(v ssa.Value, depth int, visited map[ssa.Value]bool)
	walk = func(v ssa.Value, depth int, visited map[ssa.Value]bool) {
		if v == nil || depth > 10 || visited[v] {
			return
		}
		visited[v] = true
		if tn, f, ok := fieldOfLoad(v); ok {
			_ = tn
			if !seen[f] {
				seen[f] = true
				out = append(out, f)
			}
			return
		}
		switch x := v.(type) {
		case *ssa.Phi:
			for _, e := range x.Edges {
				walk(e, depth+1, visited)
			}
		case *ssa.Extract:
			if call, ok := x.Tuple.(*ssa.Call); ok {
				if g := call.Call.StaticCallee(); g != nil && IsModuleFunc(g) && len(g.Blocks) > 0 {
					for _, r := range returnsOf(g) {
						if x.Index < len(r.Results) {
							walk(r.Results[x.Index], depth+1, visited)
						}
					}
					return
				}
			}
		case *ssa.Call:
			if g := x.Call.StaticCallee(); g != nil && IsModuleFunc(g) && len(g.Blocks) > 0 {
				for _, r := range returnsOf(g) {
					if len(r.Results) > 0 {
						walk(r.Results[0], depth+1, visited)
					}
				}
				return
			}
			for _, a := range x.Call.Args {
				walk(a, depth+1, visited)
			}
		case *ssa.Convert:
			walk(x.X, depth+1, visited)
		case *ssa.ChangeType:
			walk(x.X, depth+1, visited)
		case *ssa.BinOp:
			walk(x.X, depth+1, visited)
			walk(x.Y, depth+1, visited)
		case *ssa.UnOp:
			if al, ok := x.X.(*ssa.Alloc); ok {
				for _, ref := range *al.Referrers() {
					if st, ok := ref.(*ssa.Store); ok && st.Addr == al {
						walk(st.Val, depth+1, visited)
					}
				}
			}
		}
	}
	walk(v, 0, map[ssa.Value]bool{})
	return out
}

func checkOptionWiring(c *Ctx, rule string) {
	p := c.P
	n := 0
	for _, fn := range p.FuncsInPkg("app") {
		for _, ci := range allCalls(fn, nil) {
			g := ci.Common().StaticCallee()
			if g == nil || g.Pkg == nil || g.Pkg.Pkg.Path() != queuePath || !strings.HasPrefix(g.Name(), "With") || g.Signature.Params().Len() < 2 {
				continue
			}
			args := ci.Common().Args
			if len(args) != g.Signature.Params().Len() {
				continue
			}
			n++
			var crossed []string
			for i, a := range args {
				pn := g.Signature.Params().At(i).Name()
				fields := configFieldsOf(p, a)
				if len(fields) == 0 {
					continue
				}
				own := false
				for _, f := range fields {
					if nameMatches(pn, f) {
						own = true
					}
				}
				if own {
					continue
				}
				for j := range args {
					if j == i {
						continue
					}
					other := g.Signature.Params().At(j).Name()
					for _, f := range fields {
						if nameMatches(other, f) {
							crossed = append(crossed, fmt.Sprintf("parameter %s receives a value derived from %v (which is what parameter %s is for)", pn, fields, other))
						}
					}
				}
			}
			crossed = dedupe(crossed)
			c.Check(len(crossed) == 0, rule, fmt.Sprintf("app.%s:%s arguments match their parameters", fn.Name(), g.Name()), p.InstrPos(ci),
				"each argument derives from the configuration field of its parameter's name",
				"the arguments of "+g.Name()+" are crossed: "+strings.Join(crossed, "; ")+" — with retention this makes the store prune acknowledged messages on the wrong schedule")
		}
	}
	c.Floor(rule, "store option calls with two or more parameters", n, 6)
}
