package main

// HTTP handler helpers: classify writes to the http.ResponseWriter parameter.

import (
	"go/types"

	"golang.org/x/tools/go/ssa"
)

type respKind int

const (
	respStatusConst respKind = iota // w.WriteHeader(<const>)
	respStatusDyn                   // w.WriteHeader(<non-const>)
	respBody                        // body write: w.Write, json.NewEncoder(w).Encode, fmt.Fprint(w,…), io.WriteString(w,…)
	respHelperErr                   // module helper taking w and a constant status >= 400
	respHelper                      // module helper taking w (status unknown)
)

type respSink struct {
	Instr  ssa.CallInstruction
	Kind   respKind
	Status int64
	Via    *ssa.BasicBlock // for one alternative of a merged status: the block the alternative arrives from
}

// At: the instruction whose reachability stands for "this status is written" — the sink itself, or for an
// alternative of a merged status the end of the block that alternative arrives from.
func (s respSink) At() ssa.Instruction {
	if s.Via != nil {
		return s.Via.Instrs[len(s.Via.Instrs)-1]
	}
	return s.Instr
}

func isResponseWriter(t types.Type) bool {
	n, ok := t.(*types.Named)
	return ok && n.Obj().Pkg() != nil && n.Obj().Pkg().Path() == "net/http" && n.Obj().Name() == "ResponseWriter"
}

// respWriterValues returns the SSA values that denote the handler's
// ResponseWriter: the parameter (or free variable) and trivial copies.
func respWriterValues(fn *ssa.Function) map[ssa.Value]bool {
	out := map[ssa.Value]bool{}
	for _, p := range fn.Params {
		if isResponseWriter(p.Type()) {
			out[p] = true
		}
	}
	for _, fv := range fn.FreeVars {
		if isResponseWriter(fv.Type()) {
			out[fv] = true
		}
	}
	// values derived by ChangeInterface/MakeInterface/phi of those
	changed := true
	for changed {
		changed = false
		for _, b := range fn.Blocks {
			for _, ins := range b.Instrs {
				v, ok := ins.(ssa.Value)
				if !ok || out[v] {
					continue
				}
				switch x := ins.(type) {
				case *ssa.ChangeInterface:
					if out[x.X] {
						out[v] = true
						changed = true
					}
				case *ssa.MakeInterface:
					if out[x.X] {
						out[v] = true
						changed = true
					}
				case *ssa.UnOp:
					// load of a free variable cell *w
					if fv, ok := x.X.(*ssa.FreeVar); ok {
						if pt, ok := fv.Type().(*types.Pointer); ok && isResponseWriter(pt.Elem()) {
							out[v] = true
							changed = true
						}
					}
				}
			}
		}
	}
	return out
}

// responseSinks lists every call in fn that writes (or may write) the response.
func responseSinks(fn *ssa.Function) []respSink {
	ws := respWriterValues(fn)
	if len(ws) == 0 {
		return nil
	}
	// encoders created from w
	enc := map[ssa.Value]bool{}
	for _, b := range fn.Blocks {
		for _, ins := range b.Instrs {
			c, ok := ins.(*ssa.Call)
			if !ok {
				continue
			}
			if calleeIs(c, "encoding/json", "", "NewEncoder") && len(c.Call.Args) == 1 && ws[c.Call.Args[0]] {
				enc[c] = true
			}
		}
	}
	var out []respSink
	for _, b := range fn.Blocks {
		for _, ins := range b.Instrs {
			c, ok := ins.(ssa.CallInstruction)
			if !ok {
				continue
			}
			com := c.Common()
			if com.IsInvoke() && ws[com.Value] {
				switch com.Method.Name() {
				case "WriteHeader":
					if n, ok := intConst(com.Args[0]); ok {
						out = append(out, respSink{c, respStatusConst, n, nil})
					} else if alts, ok := constAlternatives(com.Args[0]); ok {
						// a merge of constants (the status chosen by a helper, or on different branches): one of them
						for _, a := range alts {
							out = append(out, respSink{c, respStatusConst, a.n, a.via})
						}
					} else {
						out = append(out, respSink{c, respStatusDyn, 0, nil})
					}
				case "Write":
					out = append(out, respSink{c, respBody, 0, nil})
				}
				continue
			}
			if calleeIs(c, "encoding/json", "Encoder", "Encode") && len(com.Args) >= 1 && enc[com.Args[0]] {
				out = append(out, respSink{c, respBody, 0, nil})
				continue
			}
			// other calls that receive w
			passesW := false
			for _, a := range com.Args {
				if ws[a] {
					passesW = true
				}
			}
			if !passesW {
				continue
			}
			if calleeIs(c, "encoding/json", "", "NewEncoder") {
				continue
			}
			if f := com.StaticCallee(); f != nil && !IsModuleFunc(f) {
				// fmt.Fprint*, io.WriteString, io.Copy, http.Error …
				if f.Pkg != nil && f.Pkg.Pkg.Path() == "net/http" && f.Name() == "Error" && len(com.Args) == 3 {
					if n, ok := intConst(com.Args[2]); ok {
						out = append(out, respSink{c, respHelperErr, n, nil})
						continue
					}
				}
				if f.Pkg != nil && f.Pkg.Pkg.Path() == "net/http" && f.Name() == "MaxBytesReader" {
					continue
				}
				out = append(out, respSink{c, respBody, 0, nil})
				continue
			}
			// module helper: summarise how it sets the status
			f := com.StaticCallee()
			if f == nil {
				out = append(out, respSink{c, respHelper, 0, nil})
				continue
			}
			pi, consts, any := helperStatusSummary(f, 0)
			switch {
			case pi >= 0 && pi < len(com.Args):
				// receiver is Args[0] for methods: helperStatusSummary indexes f.Params, same as Args
				if n, ok := intConst(com.Args[pi]); ok {
					if n >= 200 && n < 300 {
						out = append(out, respSink{c, respHelper, n, nil})
					} else {
						out = append(out, respSink{c, respHelperErr, n, nil})
					}
				} else {
					out = append(out, respSink{c, respStatusDyn, 0, nil})
				}
			case any && len(consts) > 0 && allNon2xx(consts):
				out = append(out, respSink{c, respHelperErr, consts[0], nil})
			default:
				out = append(out, respSink{c, respHelper, 0, nil})
			}
		}
	}
	return out
}

func allNon2xx(xs []int64) bool {
	for _, x := range xs {
		if x >= 200 && x < 300 {
			return false
		}
	}
	return true
}

// helperStatusSummary: for a module function that receives the ResponseWriter,
// returns the index of the parameter that flows into WriteHeader (or -1), the
// constant statuses it writes itself, and whether it writes a status at all.
func helperStatusSummary(f *ssa.Function, depth int) (paramIdx int, consts []int64, any bool) {
	paramIdx = -1
	if depth > 3 || len(f.Blocks) == 0 {
		return
	}
	for _, s := range responseSinks(f) {
		switch s.Kind {
		case respStatusConst:
			consts = append(consts, s.Status)
			any = true
		case respStatusDyn:
			any = true
			com := s.Instr.Common()
			var arg ssa.Value
			if com.IsInvoke() {
				arg = com.Args[0]
			}
			for i, p := range f.Params {
				if arg == p {
					paramIdx = i
				}
			}
			if paramIdx < 0 {
				// status passed on to a nested helper
				if g := com.StaticCallee(); g != nil {
					gi, _, _ := helperStatusSummary(g, depth+1)
					if gi >= 0 && gi < len(com.Args) {
						for i, p := range f.Params {
							if com.Args[gi] == p {
								paramIdx = i
							}
						}
					}
				}
			}
		case respHelperErr:
			consts = append(consts, s.Status)
			any = true
		}
	}
	return
}

type constAlt struct {
	n   int64
	via *ssa.BasicBlock
}

// constAlternatives: v is a merge (φ, possibly nested) of integer constants only; each alternative with the
// predecessor block of the outermost merge it arrives from.
func constAlternatives(v ssa.Value) ([]constAlt, bool) {
	top, isPhi := v.(*ssa.Phi)
	if !isPhi {
		return nil, false
	}
	var out []constAlt
	for i, e := range top.Edges {
		seen := map[ssa.Value]bool{}
		var walk func(v ssa.Value) bool
		walk = func(v ssa.Value) bool {
			if seen[v] {
				return true
			}
			seen[v] = true
			if n, ok := intConst(v); ok {
				out = append(out, constAlt{n, top.Block().Preds[i]})
				return true
			}
			phi, ok := v.(*ssa.Phi)
			if !ok {
				return false
			}
			for _, e2 := range phi.Edges {
				if !walk(e2) {
					return false
				}
			}
			return true
		}
		if !walk(e) {
			return nil, false
		}
	}
	return out, len(out) > 0
}
