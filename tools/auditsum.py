#!/usr/bin/env python3
"""Summary of audit/audit.json: breaks not reported by their own property, benign changes reported."""
import json, os, collections
ROOT = os.path.dirname(os.path.dirname(os.path.abspath(__file__)))
r = json.load(open(ROOT + "/audit/audit.json"))["results"]
groups = collections.Counter(); alarms = collections.Counter()
def grp(n):
    b = n.split("/")[-1]
    for g in ("indepB", "indepC", "indepD", "indep", "twin-of"):
        if b.startswith(g): return g
    return "hand-made"
for x in r:
    if x["kind"] == "benign":
        g = grp(x["name"]); groups[g] += 1
        if x["reported_by"]:
            alarms[g] += 1
            fs = [f[:90] for v in x["findings"].values() for f in v][:2]
            print("ALARM", x["name"], x["reported_by"], fs)
    elif x["status"] == "ran" and x["property"] not in (x["reported_by"] or []):
        print("MISSED-BY-OWN-PROPERTY", x["name"], x["reported_by"])
print("breaks:", sum(1 for x in r if x["kind"] != "benign"), " benign:", dict(groups), " alarms:", dict(alarms))
