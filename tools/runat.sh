#!/bin/sh
# usage: tools/runat.sh <commit> <property-id>...  — run the rules on a scratch export of /repo at <commit>
set -u
C=$1; shift
VERIF=$(cd "$(dirname "$0")/.." && pwd)
W=$(mktemp -d /tmp/hkat.XXXXXX)
trap 'rm -rf "$W"' EXIT
mkdir -p "$W/repo" "$W/verif/evidence"
git -C /repo archive "$C" | tar -x -C "$W/repo"
cp "$VERIF/known_findings.json" "$W/verif/"
"$VERIF/run.sh" build >/dev/null
"$VERIF/bin/hkcheck" -repo "$W/repo" -verif "$W/verif" -tier quick "$@" | sed "s#$W/##g" | grep -v "^RULE\|^LOADED\|^NOTE"
