#!/bin/sh
# validate MANIFEST.json and every evidence file against the schemas
python3-vt - <<'PY'
import json, glob, jsonschema
jsonschema.validate(json.load(open('/verif/MANIFEST.json')), json.load(open('/root/.vp/MANIFEST.schema.json')))
print("MANIFEST ok")
sch = json.load(open('/root/.vp/EVIDENCE.schema.json'))
for f in sorted(glob.glob('/verif/evidence/C*.json')):
    try:
        jsonschema.validate(json.load(open(f)), sch); print(f, "ok")
    except Exception as e:
        print(f, "INVALID", str(e)[:300])
PY
