#!/bin/sh
# usage: tools/mutest.sh <patch-file> <property-id>...   — apply a patch to a scratch copy of /repo and run the rules there.
# Prints the non-ok obligations; exit code = checker's exit code. Scratch copy is removed.
set -u
PATCH=$(readlink -f "$1"); shift
VERIF=$(cd "$(dirname "$0")/.." && pwd)
W=$(mktemp -d /tmp/hkmut.XXXXXX)
trap 'rm -rf "$W"' EXIT
rsync -a --exclude .git /repo/ "$W/repo/"
( cd "$W/repo" && patch -p1 -s < "$PATCH" ) || { echo "PATCH-DOES-NOT-APPLY"; exit 3; }
mkdir -p "$W/verif/evidence"
cp "$VERIF/known_findings.json" "$W/verif/"
"$VERIF/run.sh" build >/dev/null
"$VERIF/bin/hkcheck" -repo "$W/repo" -verif "$W/verif" -tier quick "$@" | sed "s#$W/##g" | grep -v "^RULE\|^LOADED\|^NOTE"
