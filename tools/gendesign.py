#!/usr/bin/env python3
"""Regenerates the two generated tables of DESIGN.md (rules that exist; audit of recorded changes) in place.
Needs bin/hkcheck built and audit/audit.json current (tools/audit.py)."""
import json, os, re, subprocess, glob
ROOT = os.path.dirname(os.path.dirname(os.path.abspath(__file__)))
out = subprocess.run([ROOT + "/bin/hkcheck", "-repo", "/repo", "-verif", ROOT, "-tier", "quick", "all"], capture_output=True, text=True,
                     env=dict(os.environ, PATH="/opt/veriftools/go1.26.8/bin:" + os.environ["PATH"], GOTOOLCHAIN="local", GOPROXY="off", GOSUMDB="off", GOWORK="off", GOFLAGS="-mod=mod")).stdout
rules = []
for m in re.finditer(r"^RULE (C\d+\.[RT]\d+)\s+ok=(\d+)\s+violations=(\d+)\s+known=(\d+)\s+(.*)$", out, re.M):
    rules.append("| %s | %s | %s | %s |" % (m.group(1), m.group(2), m.group(4), m.group(5).replace("|", "/")))
a = json.load(open(ROOT + "/audit/audit.json"))
rows = []
fired = set()
for r in a["results"]:
    name, kind, prop = r["name"], r["kind"], r["property"]
    if r["status"] != "ran":
        rows.append("| %s | %s | %s | _skipped: %s_ | | |" % (name, kind, prop, r["reason"])); continue
    if kind != "benign": fired |= set(r.get("rules", []))
    rb = ", ".join(r["reported_by"]) or "—"
    first = "; ".join(v[0] for v in list(r["findings"].values())[:2]).replace("|", "/")
    hist = ""
    d = ROOT + "/seeded/" + name
    if os.path.isdir(d):
        hist = (json.load(open(d + "/meta.json")).get("detected_by") or {}).get("history", "")
    rows.append("| %s | %s | %s | %s | %s | %s |" % (name, kind, prop, rb, first, hist))
ids = [r.split("|")[1].strip() for r in rules]
never = [r for r in ids if r not in fired]
s = open(ROOT + "/DESIGN.md").read()
def put(tag, body):
    global s
    a, b = "<!-- BEGIN %s -->" % tag, "<!-- END %s -->" % tag
    i, j = s.index(a), s.index(b)
    s = s[:i + len(a)] + "\n" + body + "\n" + s[j:]
put("RULES", "| rule | ok | known | what is decided |\n|---|---|---|---|\n" + "\n".join(rules))
put("AUDIT", "| change | kind | property | reported by | first finding(s) | history |\n|---|---|---|---|---|---|\n" + "\n".join(rows))
import collections
def grp(n):
    b = n.split("/")[-1]
    for g in ("indepB", "indepC", "indepD", "indepE", "indep", "twin-of"):
        if b.startswith(g): return g
    return "hand-made"
tot, al, names = collections.Counter(), collections.Counter(), []
for r in a["results"]:
    if r["kind"] == "benign" and r["status"] == "ran":
        g = grp(r["name"]); tot[g] += 1
        if r["reported_by"]:
            al[g] += 1; names.append("`%s` (%s)" % (r["name"].replace(".benign.diff", ""), ", ".join(sorted(set(x.split()[0] for v in r["findings"].values() for x in v)))[:60]))
nbreak = sum(1 for r in a["results"] if r["kind"] != "benign" and r["status"] == "ran")
nmiss = sum(1 for r in a["results"] if r["kind"] != "benign" and r["status"] == "ran" and r["property"] not in r["reported_by"])
label = {"indep": "round 1 (helper extraction etc.)", "indepB": "round 2 (other kinds)", "indepC": "round 3 (free choice)", "indepD": "round 4 (free choice, after all of the above)", "indepE": "round 5 (shape-changing refactorings, a later session)", "twin-of": "benign twins of the round-5 and round-7 seeds", "hand-made": "hand-made variants"}
rowsb = ["| %s | %d | %d |" % (label[g], tot[g], al[g]) for g in ("indep", "indepB", "indepC", "indepD", "indepE", "twin-of", "hand-made")]
put("BENIGNSTATE", "**State on the current tree and rule set** (`tools/audit.py`, summary by `tools/auditsum.py`): %d recorded breaking changes, %d not reported by their own property; %d behaviour-preserving changes, %d reported.\n\n| group | changes | still reported |\n|---|---|---|\n%s\n\nStill reported (each is a limit of a rule, not a defect of the tree; reasons below): %s." % (nbreak, nmiss, sum(tot.values()), sum(al.values()), "\n".join(rowsb), ", ".join(names)))
put("RULECOV", "%d rules exist; %d of them are exercised by at least one recorded breaking change (seed or variant) that they report. Not exercised by a recorded patch: %s." % (len(ids), len(ids) - len(never), ", ".join(never) or "none"))
open(ROOT + "/DESIGN.md", "w").write(s)
print("rules", len(ids), "audit rows", len(rows), "never", never)
