#!/usr/bin/env python3
"""Audit of the checker against changes: applies every patch under seeded/ and variants/ to a scratch copy of
/repo's current tree, runs every registered rule set there (static analysis only), and records which
properties/rules report it. Breaking patches must be reported; benign ones must stay silent.
usage: tools/audit.py [--only NAME-SUBSTR] [--jobs N] [--props C01,C02|all]
Writes audit/audit.json and audit/AUDIT.md."""
import json, os, re, shutil, subprocess, sys, tempfile, glob
from concurrent.futures import ThreadPoolExecutor
ROOT = os.path.dirname(os.path.dirname(os.path.abspath(__file__)))
REPO = os.environ.get("HK_REPO", "/repo")
def run_one(item):
    name, kind, patch, prop = item
    w = tempfile.mkdtemp(prefix="hkaudit.")
    try:
        subprocess.run(["rsync", "-a", "--exclude", ".git", REPO + "/", w + "/repo/"], check=True)
        r = subprocess.run(["patch", "-p1", "-s", "-d", w + "/repo", "-i", patch], capture_output=True, text=True)
        if r.returncode != 0:
            return dict(name=name, kind=kind, property=prop, status="skipped", reason="patch does not apply to the current tree")
        os.makedirs(w + "/verif/evidence", exist_ok=True)
        shutil.copy(ROOT + "/known_findings.json", w + "/verif/")
        props = PROPS
        out = subprocess.run([ROOT + "/bin/hkcheck", "-repo", w + "/repo", "-verif", w + "/verif", "-tier", "quick"] + props,
                             capture_output=True, text=True).stdout
        hits = {}
        for m in re.finditer(r'^FINDING rule=(C\d+)\.(R\d+) status=(\w+) construct="([^"]*)"', out, re.M):
            hits.setdefault(m.group(1), []).append(m.group(1) + "." + m.group(2) + " " + m.group(4))
        rules = sorted({f.split()[0] for v in hits.values() for f in v})
        return dict(name=name, kind=kind, property=prop, status="ran", reported_by=sorted(hits), rules=rules, findings={k: sorted(set(v))[:4] for k, v in hits.items()})
    finally:
        shutil.rmtree(w, ignore_errors=True)
args = sys.argv[1:]
only = None; jobs = 4; PROPS = ["all"]
while args:
    a = args.pop(0)
    if a == "--only": only = args.pop(0)
    elif a == "--jobs": jobs = int(args.pop(0))
    elif a == "--props":
        v = args.pop(0); PROPS = ["all"] if v == "all" else v.split(",")
items = []
for d in sorted(glob.glob(ROOT + "/seeded/*")):
    meta = json.load(open(d + "/meta.json"))
    items.append((os.path.basename(d), "seeded-break", d + "/patch.diff", meta["property"]))
for f in sorted(glob.glob(ROOT + "/variants/*/*.diff")):
    kind = "break" if f.endswith(".break.diff") else "benign"
    items.append((os.path.relpath(f, ROOT + "/variants"), kind, f, os.path.basename(os.path.dirname(f))))
if only: items = [i for i in items if only in i[0]]
subprocess.run([ROOT + "/run.sh", "build"], check=True)
with ThreadPoolExecutor(jobs) as ex: res = list(ex.map(run_one, items))
os.makedirs(ROOT + "/audit", exist_ok=True)
head = subprocess.check_output(["git", "-C", REPO, "rev-parse", "--short", "HEAD"]).decode().strip()
json.dump(dict(repo_head=head, results=res), open(ROOT + "/audit/audit.json", "w"), indent=1)
lines = ["# Audit of the checker against known changes (repo HEAD %s)" % head, "",
         "| change | kind | property | reported by | own property reports it | first findings |", "|---|---|---|---|---|---|"]
bad = 0
for r in res:
    if r["status"] != "ran":
        lines.append("| %s | %s | %s | _skipped: %s_ | | |" % (r["name"], r["kind"], r["property"], r["reason"])); continue
    rb = r["reported_by"]; own = r["property"] in rb
    ok = (len(rb) > 0) if r["kind"] != "benign" else (len(rb) == 0)
    if not ok: bad += 1
    first = "; ".join(v[0] for v in list(r["findings"].values())[:2])
    lines.append("| %s | %s | %s | %s | %s | %s |" % (r["name"], r["kind"], r["property"], ", ".join(rb) or "—", "yes" if own else ("n/a" if r["kind"] == "benign" else "no"), first.replace("|", "/")[:160]))
lines += ["", "unexpected outcomes (break not reported / benign reported): %d" % bad]
open(ROOT + "/audit/AUDIT.md", "w").write("\n".join(lines) + "\n")
print("\n".join(lines[-25:]))
