#!/bin/bash
# usage: tools/import_benign.sh <srcdir> <property-id> <tag>
# Copies <srcdir>/_benign/patchN.diff to variants/<id>/<tag>N.benign.diff (+ notes) when it applies to /repo HEAD and builds.
set -u
SRC=$1; ID=$2; TAG=$3
VERIF=$(cd "$(dirname "$0")/.." && pwd)
export GOPROXY=off GOFLAGS=-mod=mod
mkdir -p "$VERIF/variants/$ID"
for n in 1 2 3; do
  [ -f "$SRC/_benign/patch$n.diff" ] || continue
  P="$SRC/_benign/patch$n.diff"
  [ -f "$P" ] || { echo "$ID patch$n: missing"; continue; }
  W=$(mktemp -d /tmp/hkimp.XXXXXX)
  rsync -a --exclude .git /repo/ "$W/repo/"
  if ( cd "$W/repo" && patch -p1 -s < "$P" ) && ( cd "$W/repo" && go build ./... ) ; then
    cp "$P" "$VERIF/variants/$ID/$TAG$n.benign.diff"
    echo "$ID patch$n: imported"
  else
    echo "$ID patch$n: does not apply/build"
  fi
  rm -rf "$W"
done
[ -f "$SRC/_benign/NOTES.md" ] && cp "$SRC/_benign/NOTES.md" "$VERIF/variants/$ID/$TAG.NOTES.md"
exit 0
