#!/usr/bin/env python3
"""Generate MANIFEST.json from the table below (kept next to the checker so the two stay in step)."""
import json, sys, os
ROOT = os.path.dirname(os.path.dirname(os.path.abspath(__file__)))
BASELINE_OFF = ("export PATH=/opt/veriftools/go1.26.8/bin:$PATH GOTOOLCHAIN=local GOFLAGS=-mod=mod GOPROXY=off GOSUMDB=off; "
                "cd /repo && go test -json -vet=off -count=1 -timeout 25m ./...")
# id -> (technique, level text, level note, design ref)
CLAIMED = {}
PENDING = {}
def claim(pid, technique, text, note):
    CLAIMED[pid] = (technique, text, note)
exec(open(os.path.join(ROOT, "tools", "claims.py")).read())
checks = []
for pid in sorted(CLAIMED):
    technique, text, note = CLAIMED[pid]
    checks.append({
        "property_id": pid,
        "quick_cmd": f"./run.sh {pid} quick",
        "thorough_cmd": f"./run.sh {pid} thorough",
        "evidence_file": f"/verif/evidence/{pid}.json",
        "replay_cmd_template": f"./run.sh {pid} --replay {{path}}",
        "engine": "hkcheck",
        "level_claimed": {"category": "other", "text": text, "design_ref": f"DESIGN.md §3 {pid}"},
        "level_note": note,
        "technique": technique,
    })
na = [{"property_id": k, "reason": v} for k, v in sorted(PENDING.items())]
m = {
    "version": 1,
    "setup_cmd": "./run.sh build",
    "hooks": {"guard": "verif", "enable": "none needed: static analysis reads the production build (no hook commits)",
              "baseline_off_cmd": BASELINE_OFF, "source_commits": [], "add_only": True},
    "engines": [{"name": "hkcheck", "path": "/verif/checker", "serves_properties": sorted(CLAIMED),
                 "kind_free_text": "repository-specific static analyser on go/packages + go/types + go/ssa (x/tools v0.50.0, vendored): CFG guard-edge dominance, finite-set state dataflow, embedded-SQL extraction, field coverage, lock regions, table extraction"}],
    "checks": checks,
    "notes": "All checks are static: hkcheck type-checks and analyses /repo's current working tree on every run; hookaido itself is never executed. Known findings: /verif/known_findings.json.",
    "not_applicable": na,
}
json.dump(m, open(os.path.join(ROOT, "MANIFEST.json"), "w"), indent=1)
print("claimed", len(checks), "not_applicable", len(na))
