# claim(id, technique, level text, level note)   /   PENDING[id] = reason
STD_NOTE = ("Trusted: go/types + go/ssa of x/tools v0.50.0 under go1.26.8; analysed = linux/amd64 build without tags, no _test files. "
            "Decides the named structural necessary conditions for all paths of the current source; does not establish the runtime behaviour "
            "(crash points, schedules, histories and numeric bounds are outside static reach — see DESIGN.md §5).")
claim("C01", "SSA guard-edge dominance (ack only after enqueue err==nil) + begin/commit/rollback typestate over extracted SQL",
      "Structural necessary conditions decided on every run for the whole tree: 2xx/200 answers are reachable only through the err==nil edge of every enqueue; every transaction function reports success only past commit err==nil with a deferred rollback; failed writes never reach a success return; schema DDL inside one transaction. Not decided: what SQLite/OS do at a crash point.",
      STD_NOTE)
for i in range(2, 21):
    PENDING["C%02d" % i] = "rule set not implemented yet in this round (see DESIGN.md §3 for the planned rules)"
