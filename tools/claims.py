# claim(id, technique, level text, level note)   /   PENDING[id] = reason
STD_NOTE = ("Trusted: go/types + go/ssa of x/tools v0.50.0 under go1.26.8; analysed = linux/amd64 build without tags, no _test files. "
            "Decides the named structural necessary conditions for all paths of the current source; does not establish the runtime behaviour "
            "(crash points, schedules, histories and numeric bounds are outside static reach — see DESIGN.md §5).")
claim("C01", "SSA guard-edge dominance (ack only after enqueue err==nil) + begin/commit/rollback typestate over extracted SQL",
      "Structural necessary conditions decided on every run for the whole tree: 2xx/200 answers are reachable only through the err==nil edge of every enqueue; every transaction function reports success only past commit err==nil with a deferred rollback; failed writes never reach a success return; schema DDL inside one transaction. Not decided: what SQLite/OS do at a crash point.",
      STD_NOTE)
claim("C02", "finite-set State dataflow (memory) + embedded-SQL classification (sqlite/postgres) against the documented machine; lockset; effect-after-error reachability",
      "Every construct that changes a message's state — memory stores/deletes with branch-refined from-sets, every INSERT/UPDATE/DELETE on queue_items with its WHERE state guard — is an edge of the documented machine owned by the operation that reaches it; identity columns/fields are never rewritten; no error return after a mutation (expiry/maintenance exempt); memory state only under the mutex. Not decided: counts/uniqueness over histories, prune eligibility arithmetic.",
      STD_NOTE)
claim("C03", "embedded-SQL extraction + tx typestate + SSA dominance on the memory lease store",
      "LEASE constructs: inside the leasing transaction on its connection, from-set exactly {queued}, candidate selection state=queued and next_run_at <= the operation's now, fresh crypto/rand lease id, attempt+1 only there, lease_until = now+ttl; every construct leaving leased clears the lease. Not decided: interleavings, SQLite/Postgres locking, clock behaviour.",
      STD_NOTE)
claim("C04", "embedded-SQL guard extraction + SSA guard-edge dominance (memory fencing, lookup accept points, API classification)",
      "Settle statements carry lease_id=<presented>, state='leased', lease_until>now or are keyed by ids fed only from a lease lookup whose state/expiry tests dominate every accept point; memory settle mutations are behind index hit, id match, state and not-expired edges; no mutation before an error return; conflicts map to 409/FailedPrecondition; idempotency cache written only after Store success. Not decided: histories, cache TTL timing, concurrency.",
      STD_NOTE)
claim("C05", "SSA dominance (sweep before select, throttle clock), embedded-SQL conjunct/order extraction, AST clock-source def-use, loop-iteration obligations in the dispatcher",
      "The expired-lease release dominates candidate selection in all three backends and the SQLite throttle clock advances only on a granted sweep; candidate selection has no conjunct beyond state/next_run_at/route/target, the documented order and a LIMIT; nack stores now+delay (clamped), expiry/requeue store now; sweep constant <= 10ms; the dispatcher settles or requeues every dequeued lease. Not decided: the count min(batch, ready), timing bounds, crash/restart, starvation under concurrency.",
      STD_NOTE)
claim("C06", "interval-domain path-condition extraction of the success/retry predicates; path enumeration of the decision function; kind-consistent reachability of Store calls",
      "The success and retry predicates' accept sets over (error kind, status code) equal the documented classes exactly; every path of the classification maps to the documented action, outcome and dead reason with attempt <= retry.max as the bound and records the attempt; each action kind reaches only its Store method with its delay/reason; compile-time retry guards dominate the stores. Not decided: numeric backoff window, the retry.max+1 send count over target behaviours.",
      STD_NOTE)
claim("C07", "SSA value provenance (def-use through cells, phis, struct fields) from sources to sinks; embedded-SQL column/field table agreement; header strip-set extraction",
      "Envelope.Payload is written only from io.ReadAll / a request-local buffer (ingress) or base64 DecodeString (publish) and every encode/copy/push-body site reads exactly Envelope.Payload with no transforming instruction; every INSERT/SELECT/RETURNING maps payload/headers/trace/id/route/target to the same envelope fields; the ingress header copier skips authorization/proxy-authorization/cookie, canonicalises and comma-joins. Not decided: byte-exactness of database/sql, drivers, encoding/json, base64, net/http; sizes around max_body.",
      STD_NOTE)
claim("C08", "SSA guard-edge dominance in the handler and verifiers; interval extraction of the forward-auth status table; provenance of the MAC input",
      "Every enqueue is unreachable from each authenticator's reject edge and reachable only via accept/not-configured; HMAC acceptance is dominated by all documented guards, the MAC input is ts\\nmethod\\npath\\nsha256(body) and secrets are selected at the signed timestamp; forward-auth allows exactly 200..299, passes 401/403, else 503; basic auth needs a table hit and constant-time equality; hooks wired to runtimeState. Not decided: cryptography, header parsing, clock offsets, compile-time config rejection.",
      STD_NOTE)
claim("C09", "comparator normalisation of the tolerance and nonce-liveness tests; provenance/pointer-identity of the replay state across reload; lock regions",
      "The nonce cache keeps an entry live on a closed bound wherever the tolerance test accepts on a closed bound, evicts only strictly after expiry, both tests use one clock reading and expiry = ts+tolerance; every installation of HMAC authenticators on the reload path first shares (not copies) the running authenticator's cache; lookup+insert in one critical section. Not decided: histories, tolerance changes across reloads, restarts.",
      STD_NOTE)
claim("C10", "finite-domain accept-set extraction of the channel predicate; within-iteration guard-edge dominance in the wired resolver functions; sibling agreement; boundary-character rule on partial matches",
      "The functions wired into the ingress route hooks yield/consider a route only behind a ChannelType test with accept set ⊆ {\"\", inbound} and behind the true edge of every matcher (all MatchConfig fields read, sibling applies the same minus methods); without a route no Store call is reachable and the answer is 404/405-with-Allow; wildcard-host and path-prefix matches carry the label/segment boundary. Not decided: full string semantics of host/path/IP matching, first-match order over all configurations.",
      STD_NOTE)
for i in range(11, 21):
    PENDING["C%02d" % i] = "rule set not implemented yet in this round (see DESIGN.md §3 for the planned rules)"
