#!/bin/bash
# usage: tools/verify_seed.sh <src-dir-with-_seeded> <seed-name> <property-id>
# Verifies a seeded change independently in a fresh scratch worktree of /repo HEAD:
#  build ok, full suite ok (demo absent), demo FAILS with change, demo PASSES without.
# On success stores it under /verif/seeded/<seed-name>/ with meta.json.
set -u
SRC=$1; NAME=$2; PROP=$3
VERIF=$(cd "$(dirname "$0")/.." && pwd)
export GOPROXY=off GOFLAGS=-mod=mod
S="$SRC/_seeded"
[ -f "$S/patch.diff" ] || { echo "no patch.diff in $S"; exit 2; }
PKG=$(tr -d ' \n' < "$S/demo_pkg.txt")
W=/tmp/sv_$NAME
git -C /repo worktree remove --force "$W" 2>/dev/null
git -C /repo worktree add --detach "$W" HEAD -q || exit 2
cleanup() { git -C /repo worktree remove --force "$W" 2>/dev/null; rm -rf "$W"; }
trap cleanup EXIT
cd "$W"
git apply "$S/patch.diff" || { echo "RESULT $NAME: patch does not apply"; exit 1; }
NONTEST=$(git status --porcelain | awk '{print $2}' | grep -v '_test.go$' | tr '\n' ' ')
go build ./... || { echo "RESULT $NAME: build fails"; exit 1; }
go vet ./$PKG >/dev/null 2>&1
SUITE=$(go test -count=1 ./... 2>&1 | grep -v "^ok\|no test files" | head -5)
if [ -n "$SUITE" ]; then echo "RESULT $NAME: suite not clean with change: $SUITE"; exit 1; fi
cp "$S/zz_seeded_demo_test.go" "$W/$PKG/zz_seeded_demo_test.go"
TESTS=$(grep -o '^func Test[A-Za-z0-9_]*' "$S/zz_seeded_demo_test.go" | sed 's/func //' | paste -sd'|')
WITH=$(go test -count=1 -run "^($TESTS)\$" ./$PKG 2>&1 | tail -40)
if echo "$WITH" | grep -q "^ok"; then echo "RESULT $NAME: demo does NOT fail with the change"; exit 1; fi
git apply -R "$S/patch.diff"
WITHOUT=$(go test -count=1 -run "^($TESTS)\$" ./$PKG 2>&1 | tail -5)
if ! echo "$WITHOUT" | grep -q "^ok"; then echo "RESULT $NAME: demo does not pass on the original: $WITHOUT"; exit 1; fi
D="$VERIF/seeded/$NAME"
mkdir -p "$D"
cp "$S/patch.diff" "$D/patch.diff"
cp "$S/zz_seeded_demo_test.go" "$D/zz_seeded_demo_test.go.txt"
[ -f "$S/NOTES.md" ] && cp "$S/NOTES.md" "$D/NOTES.md"
python3 - "$D" "$NAME" "$PROP" "$PKG" "$TESTS" "$NONTEST" <<'PY'
import json,sys,subprocess
d,name,prop,pkg,tests,files=sys.argv[1:7]
head=subprocess.check_output(['git','-C','/repo','rev-parse','--short','HEAD']).decode().strip()
meta={"seed":name,"property":prop,"breaks":"see NOTES.md (written by the independent sub-agent that produced the change)",
 "needs_to_manifest":"see NOTES.md","files_changed":files.split(),"demo_package":pkg,"demo_tests":tests.split('|'),
 "base_commit":head,
 "verified_by_me":["git apply patch.diff on a fresh worktree of /repo HEAD","go build ./... ok","go test -count=1 ./... all ok with the change (demo absent)",
   "demo test(s) FAIL with the change","demo test(s) PASS after git apply -R"],
 "detected_by":None}
json.dump(meta,open(d+'/meta.json','w'),indent=1)
PY
echo "RESULT $NAME: VERIFIED (files: $NONTEST)"
