#!/bin/sh
# usage: ./run.sh <property-id> [quick|thorough]      run the rule set of one property on /repo's current tree
#        ./run.sh <property-id> --replay <file>         print a recorded finding and re-run that property's rules
#        ./run.sh build                                 (re)build the checker
# Static analysis only: hkcheck loads, type-checks and analyses the source; nothing of hookaido is executed.
set -u
cd "$(dirname "$0")" || exit 2
VERIF=$(pwd)
REPO=${HK_REPO:-/repo}
export PATH=/opt/veriftools/go1.26.8/bin:$PATH
export GOTOOLCHAIN=local GOPROXY=off GOSUMDB=off GOWORK=off CGO_ENABLED=0
unset GOWORK_FILE 2>/dev/null
build() {
  ( cd "$VERIF/checker" && GOFLAGS=-mod=vendor go build -o "$VERIF/bin/hkcheck" . ) || { echo "ERROR: checker build failed"; exit 2; }
}
needs_build() {
  [ -x "$VERIF/bin/hkcheck" ] || return 0
  [ -n "$(find "$VERIF/checker" -maxdepth 1 -name '*.go' -newer "$VERIF/bin/hkcheck" 2>/dev/null | head -1)" ] && return 0
  return 1
}
mkdir -p "$VERIF/bin" "$VERIF/evidence/replay"
if [ "${1:-}" = "build" ]; then build; exit 0; fi
if needs_build; then build; fi
ID=${1:?property id}
MODE=${2:-${VERIF_TIER:-quick}}
if [ "$MODE" = "--replay" ]; then
  echo "== recorded finding =="; cat "${3:?replay file}" 2>/dev/null || echo "(replay file missing; re-running rules)"
  echo "== re-evaluating $ID on the current tree =="
  exec "$VERIF/bin/hkcheck" -repo "$REPO" -verif "$VERIF" -tier quick -list "$ID"
fi
export GOFLAGS=-mod=mod
TIER=quick
[ "$MODE" = "thorough" ] && TIER=thorough
"$VERIF/bin/hkcheck" -repo "$REPO" -verif "$VERIF" -tier "$TIER" "$ID"
rc=$?
if [ $rc -ne 0 ] && [ $rc -ne 1 ]; then
  # the checker itself died (fatal runtime error): an undecided property is a failed one
  R="$VERIF/evidence/replay/$ID-checker-crash.json"
  printf '{"property":"%s","rule":"%s.R0","construct":"checker-crash","status":"violation","detail":"hkcheck exited with status %s before deciding the property; see its output"}\n' "$ID" "$ID" "$rc" > "$R"
  echo "FINDING rule=$ID.R0 status=violation construct=\"checker-crash\" at : hkcheck exited with status $rc before deciding the property"
  echo "VIOLATION property=$ID replay=$R"
  exit 1
fi
exit $rc
